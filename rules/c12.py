"""C12 - only power-of-two piece lengths of at least 16 KiB are ever accepted or chosen."""
import ast
import itertools

from tfsa.flow import Flow, walk_terms
from tfsa.loader import own_nodes, AnalysisError
from tfsa.report import norm
from tfsa.resolve import const_str
from . import common as C

PROP = "C12"
EXPLANATION = (
    "Abstract interpretation of the piece-length normaliser over a finite predicate domain that is exhaustive for its "
    "conditions: the argument is abstracted to (kind: int | decimal string | numeric-but-not-decimal string | other "
    "string) x (the interval between consecutive constants the code or the specification compares with) x (exact "
    "power of two: yes/no) x (one free boolean per float-derived test, because 2**log2(x) == x and friends are not an "
    "exact power-of-two test). For every satisfiable cell the CFG is traced, deciding each condition from the abstract "
    "value only, and the outcome (return x, return 2**x, raise PieceLengthValueError, other exception escaping) is "
    "compared with the specification: exponents 14..25 -> 2**n, exact powers of two >= 16384 -> themselves, 26..29 either, "
    "everything else -> PieceLengthValueError. C12.2: loop-bound and polarity analysis of the automatic choice (exponent "
    "starts >= 14, +1 per iteration, bounded by a constant <= 24; the continuation test is upward-closed in the size), and the size handed "
    "to it is the total of the listing the creators hash (utils.filelist_total), not a walk of its own. "
    "C12.3: the value recorded in info['piece length'] is exactly the return value of one of these two functions, the "
    "attribute has no other writer, and 'not given' is decided by None / empty string, not by truthiness.")
RULE_TEXT = "one obligation per abstract cell of the normaliser (C12.1), per structural fact of the automatic choice (C12.2) and per route fact (C12.3)"

SPEC_POINTS = [14, 26, 30, 16384]   # region boundaries of the specification
KINDS = ["int", "str-decimal", "str-numeric", "str-other"]


def fold(node, consts=None):
    """Constant-fold an integer expression (2**14, 1 << 14, names of module constants)."""
    try:
        if isinstance(node, ast.Constant) and isinstance(node.value, int) and not isinstance(node.value, bool):
            return node.value
        if isinstance(node, ast.BinOp):
            l, r = fold(node.left, consts), fold(node.right, consts)
            if l is None or r is None:
                return None
            if isinstance(node.op, ast.Pow) and 0 <= r < 80:
                return l ** r
            if isinstance(node.op, ast.LShift) and 0 <= r < 80:
                return l << r
            if isinstance(node.op, ast.Mult):
                return l * r
            if isinstance(node.op, ast.Add):
                return l + r
            if isinstance(node.op, ast.Sub):
                return l - r
            if isinstance(node.op, ast.FloorDiv) and r:
                return l // r
        if isinstance(node, ast.UnaryOp) and isinstance(node.op, ast.USub):
            v = fold(node.operand, consts)
            return -v if v is not None else None
        if isinstance(node, ast.Name) and consts and node.id in consts:
            return consts[node.id]
    except Exception:
        return None
    return None


def is_pow2(n):
    return n > 0 and n & (n - 1) == 0


def float_derived(ctx, expr, fn, tainted):
    """The expression involves floating point (math.*, true division, float()) or a local derived from it."""
    for n in ast.walk(expr):
        if isinstance(n, ast.Call):
            for d in C.ext_name(ctx, n, fn):
                if d.startswith("math.") or d in ("builtins.float", "builtins.round"):
                    return True
        if isinstance(n, ast.BinOp) and isinstance(n.op, ast.Div):
            return True
        if isinstance(n, ast.Name) and n.id in tainted:
            return True
        if isinstance(n, ast.Constant) and isinstance(n.value, float):
            return True
    return False


def exact_pow2_test(expr, var):
    """Recognise exact integer power-of-two predicates on `var`. Returns 'pow2' if expr is TRUE iff var is a power of two
    (for var > 0), 'notpow2' if TRUE iff it is not, else None."""
    def is_var(n):
        return isinstance(n, ast.Name) and n.id == var

    def and_minus_one(n):
        # var & (var - 1)
        if isinstance(n, ast.BinOp) and isinstance(n.op, ast.BitAnd):
            for a, b in ((n.left, n.right), (n.right, n.left)):
                if is_var(a) and isinstance(b, ast.BinOp) and isinstance(b.op, ast.Sub) and is_var(b.left) \
                        and isinstance(b.right, ast.Constant) and b.right.value == 1:
                    return True
        return False

    if and_minus_one(expr):
        return "notpow2"        # truthy iff some lower bit is set
    if isinstance(expr, ast.Compare) and len(expr.ops) == 1:
        l, op, r = expr.left, expr.ops[0], expr.comparators[0]
        if and_minus_one(l) and isinstance(r, ast.Constant) and r.value == 0:
            return "pow2" if isinstance(op, ast.Eq) else ("notpow2" if isinstance(op, ast.NotEq) else None)
        # var & -var == var : the lowest set bit is the whole number
        for a_, b_ in ((l, r), (r, l)):
            if is_var(b_) and isinstance(a_, ast.BinOp) and isinstance(a_.op, ast.BitAnd):
                for p_, q_ in ((a_.left, a_.right), (a_.right, a_.left)):
                    if is_var(p_) and isinstance(q_, ast.UnaryOp) and isinstance(q_.op, ast.USub) and is_var(q_.operand):
                        return "pow2" if isinstance(op, ast.Eq) else ("notpow2" if isinstance(op, ast.NotEq) else None)
        # var.bit_count() == 1   /  bin(var).count("1") == 1
        if isinstance(r, ast.Constant) and r.value == 1 and isinstance(l, ast.Call) and isinstance(l.func, ast.Attribute):
            if l.func.attr == "bit_count" and is_var(l.func.value):
                return "pow2" if isinstance(op, ast.Eq) else ("notpow2" if isinstance(op, ast.NotEq) else None)
            if l.func.attr == "count" and isinstance(l.func.value, ast.Call) and isinstance(l.func.value.func, ast.Name) \
                    and l.func.value.func.id == "bin" and l.func.value.args and is_var(l.func.value.args[0]) \
                    and l.args and const_str(l.args[0]) == "1":
                return "pow2" if isinstance(op, ast.Eq) else ("notpow2" if isinstance(op, ast.NotEq) else None)
        # 1 << (var.bit_length() - 1) == var   /  2 ** (var.bit_length() - 1) == var
        for a, b in ((l, r), (r, l)):
            if is_var(b) and isinstance(a, ast.BinOp) and isinstance(a.op, (ast.LShift, ast.Pow)) and isinstance(a.left, ast.Constant) \
                    and a.left.value in (1, 2):
                sh = a.right
                if isinstance(sh, ast.BinOp) and isinstance(sh.op, ast.Sub) and isinstance(sh.right, ast.Constant) and sh.right.value == 1 \
                        and isinstance(sh.left, ast.Call) and isinstance(sh.left.func, ast.Attribute) and sh.left.func.attr == "bit_length" \
                        and is_var(sh.left.func.value):
                    if (isinstance(a.op, ast.LShift) and a.left.value == 1) or (isinstance(a.op, ast.Pow) and a.left.value == 2):
                        return "pow2" if isinstance(op, ast.Eq) else ("notpow2" if isinstance(op, ast.NotEq) else None)
    return None


class Cell:
    def __init__(self, kind, lo, hi, pow2, rep):
        self.kind, self.lo, self.hi, self.pow2, self.rep = kind, lo, hi, pow2, rep

    def label(self):
        if self.lo is None and self.hi is None:
            return self.kind
        rng = "x = %d" % self.lo if self.lo == self.hi else "x in [%s, %s]" % ("-inf" if self.lo is None else self.lo, "+inf" if self.hi is None else self.hi)
        return "%s, %s, %s" % (self.kind, rng, "power of two" if self.pow2 else "not a power of two")


def regions(points):
    pts = sorted(set(points))
    out = [(None, pts[0] - 1)]
    for i, p in enumerate(pts):
        out.append((p, p))
        nxt = pts[i + 1] if i + 1 < len(pts) else None
        if nxt is None:
            out.append((p + 1, None))
        elif nxt > p + 1:
            out.append((p + 1, nxt - 1))
    return out


def representative(lo, hi, want_pow2):
    """An integer in [lo, hi] that is / is not a power of two, or None."""
    if want_pow2:
        start = 1 if lo is None or lo < 1 else lo
        p = 1
        while p < start:
            p <<= 1
        if hi is None or p <= hi:
            return p
        return None
    if lo is None:
        return (hi if hi is not None else 0) if not is_pow2(hi if hi is not None else 0) else hi - 1 if hi - 1 >= -10**9 and not is_pow2(hi - 1) else -7
    n = lo
    limit = hi if hi is not None else lo + 5
    while n <= limit:
        if not is_pow2(n):
            return n
        n += 1
    return None


def spec_outcome(cell):
    """Set of allowed outcomes for an abstract cell."""
    if cell.kind in ("str-numeric", "str-other"):
        return {"plve"}
    x_lo, x_hi = cell.lo, cell.hi
    if cell.kind == "str-decimal" and (x_hi is not None and x_hi < 0):
        return None      # unsatisfiable: a decimal string is never negative
    if x_lo is not None and x_lo >= 14 and x_hi is not None and x_hi <= 25:
        return {"exp"}
    if x_lo is not None and x_lo >= 26 and x_hi is not None and x_hi <= 29:
        return {"exp", "plve"}
    if x_lo is not None and x_lo >= 16384 and cell.pow2:
        return {"self"}
    return {"plve"}


def normaliser(ctx):
    fn = ctx.prog.func("torrentfile.utils:normalize_piece_length")
    g = C.cfg_of(fn)
    var = fn.params[0]
    consts = {k: fold(v[0]) for k, v in fn.module.assigns.items() if len(v) == 1 and fold(v[0]) is not None}
    # breakpoints: every integer constant the variable is compared with
    points = set(SPEC_POINTS) | {25, 29, 16383}
    float_names = set()
    for n in own_nodes(fn.node):
        if isinstance(n, ast.Compare):
            for c in [n.left] + n.comparators:
                v = fold(c, consts)
                if v is not None and abs(v) < 1 << 70:
                    points |= {v}
        if isinstance(n, ast.Assign) and len(n.targets) == 1 and isinstance(n.targets[0], ast.Name) and n.targets[0].id != var:
            if float_derived(ctx, n.value, fn, float_names):
                float_names.add(n.targets[0].id)
    # free boolean atoms: float-derived comparisons / truth tests
    free_atoms = []
    for n in g.live_nodes():
        t = C.test_expr(n)
        if t is None:
            continue
        for a in C.atoms_of(t):
            if float_derived(ctx, a, fn, float_names) and norm(a) not in free_atoms:
                free_atoms.append(norm(a))
    # The function reads the bit length of its argument (directly or through a local): comparisons on it change at powers
    # of two.  Every power of two up to 2**31 - and 2**(k-1), 2**k for every constant k that is compared - becomes a cell of
    # its own; the cells in between hold values of one bit length and no power of two, so one representative still decides.
    reads_bits = any(isinstance(n, ast.Attribute) and n.attr == "bit_length" for n in own_nodes(fn.node))
    sign_blind = reads_bits or any(isinstance(n, ast.Attribute) and n.attr == "bit_count" for n in own_nodes(fn.node)) \
        or any(isinstance(n, ast.Call) and isinstance(n.func, ast.Name) and n.func.id in ("bin", "abs") for n in own_nodes(fn.node))
    if sign_blind:
        # bit_length(), bit_count(), bin() and abs() look at the magnitude only: the negatives of powers of two are inputs of
        # their own kind (never valid), one cell each
        points |= {-(1 << k) for k in (0, 1, 13, 14, 15, 16, 20, 24)}
    if reads_bits:
        small = [v for v in points if 0 < v <= 70]
        points |= {1 << k for k in range(0, 32)} | {1 << (k - 1) for k in small} | {1 << k for k in small}
    ctx.info["normaliser"] = {"variable": var, "breakpoints": sorted(points), "float_derived_tests": free_atoms, "reads_bit_length": reads_bits}
    cells = []
    for lo, hi in regions(points):
        for p2 in (True, False):
            rep = representative(lo, hi, p2)
            if rep is None:
                continue
            for kind in ("int", "str-decimal"):
                cells.append(Cell(kind, lo, hi, p2, rep))
    cells.append(Cell("str-numeric", None, None, False, None))
    cells.append(Cell("str-other", None, None, False, None))
    n_cells = 0
    for cell in cells:
        allowed = spec_outcome(cell)
        if allowed is None:
            continue
        for free in itertools.product((True, False), repeat=len(free_atoms)):
            fv = dict(zip(free_atoms, free))
            n_cells += 1
            out, detail = run_cell(ctx, fn, g, var, cell, fv, consts, float_names)
            label = cell.label() + ("" if not fv else ", float tests: " + ", ".join("%s=%s" % kv for kv in fv.items()))
            if out == "undetermined":
                ctx.undecided("C12.1", fn, "cell [%s]: %s" % (label, detail), "cell: " + label)
            elif out in allowed:
                ctx.holds("C12.1", fn, "cell [%s] -> %s (allowed: %s)" % (label, describe(out), "/".join(sorted(allowed))), "cell: " + label)
            else:
                example = "" if cell.rep is None else " (e.g. %s%d%s)" % ('"' if cell.kind != "int" else "", cell.rep, '"' if cell.kind != "int" else "")
                ctx.violated("C12.1", fn, "cell [%s]%s -> %s; the specification requires %s. %s" % (
                    label, example, describe(out), " or ".join(describe(a) for a in sorted(allowed)), detail), "cell: " + label)
    ctx.floor("abstract cells of the normaliser", 30, n_cells)


def describe(out):
    return {"exp": "returns 2**x", "self": "returns x itself", "plve": "raises PieceLengthValueError",
            "other-exc": "raises another exception", "escape": "lets a ValueError/TypeError escape", "other-return": "returns some other value",
            "none": "returns None"}.get(out, out)


def run_cell(ctx, fn, g, var, cell, fv, consts, float_names):
    state = {"kind": cell.kind, "escape": None, "ret": None, "raise": None}
    x = cell.rep
    env = {}        # integer locals computed from the argument by exact integer arithmetic: name -> value on the representative

    def int_eval(node):
        """Exact value of an integer expression over the argument, its bit length and derived locals; LookupError when the
        expression is anything else, TypeError when it does arithmetic on the unconverted string."""
        if isinstance(node, ast.Name):
            if node.id == var:
                if not numeric():
                    raise TypeError
                return x
            if node.id in env:
                return env[node.id]
        v0 = fold(node, consts)
        if v0 is not None:
            return v0
        if isinstance(node, ast.Call) and isinstance(node.func, ast.Attribute) and node.func.attr == "bit_length" and not node.args and not node.keywords:
            if isinstance(node.func.value, ast.Name) and node.func.value.id == var and not numeric():
                state["escape"] = "bit_length() on a string raises AttributeError"
                raise LookupError
            return int_eval(node.func.value).bit_length()
        if isinstance(node, ast.UnaryOp) and isinstance(node.op, ast.USub):
            return -int_eval(node.operand)
        if isinstance(node, ast.BinOp):
            l, r = int_eval(node.left), int_eval(node.right)
            op = node.op
            if isinstance(op, ast.Add):
                return l + r
            if isinstance(op, ast.Sub):
                return l - r
            if isinstance(op, ast.Mult):
                return l * r
            if isinstance(op, ast.BitAnd):
                return l & r
            if isinstance(op, ast.BitOr):
                return l | r
            if isinstance(op, ast.BitXor):
                return l ^ r
            if isinstance(op, ast.FloorDiv) and r != 0:
                return l // r
            if isinstance(op, ast.Mod) and r != 0:
                return l % r
            if isinstance(op, (ast.LShift, ast.Pow)) and 0 <= r < 200 and (isinstance(op, ast.LShift) or abs(l) <= 2):
                return (l << r) if isinstance(op, ast.LShift) else l ** r
            if isinstance(op, ast.RShift) and r >= 0:
                return l >> r
        raise LookupError

    def numeric():
        return state["kind"] == "int"

    def convert_int(vname):
        if state["kind"] == "str-decimal":
            state["kind"] = "int"
        elif state["kind"] in ("str-numeric", "str-other"):
            # int("²") raises ValueError: does a handler catch it?
            state["escape"] = "int(%s) raises ValueError for a %s string" % (vname, "numeric but not decimal (e.g. '²')" if state["kind"] == "str-numeric" else "non-numeric")

    def inline_conversion(h, depth=0):
        """var = h(var) with h a package function of one parameter: trace h on the same abstract value."""
        hp = [p_ for p_ in h.params if p_ != h.self_name]
        if len(hp) != 1 or depth > 2:
            state["unknown"] = "helper %s is not understood" % h.name
            return
        sub = {"ret": None, "raise": None}

        def visit2(n):
            a2 = n.ast
            if n.kind != "stmt" or state["escape"]:
                return
            if isinstance(a2, ast.Return):
                sub["ret"] = a2.value
            elif isinstance(a2, ast.Raise):
                sub["raise"] = a2.exc
            elif isinstance(a2, ast.Assign) and len(a2.targets) == 1 and isinstance(a2.targets[0], ast.Name) and a2.targets[0].id == hp[0]:
                if isinstance(a2.value, ast.Call) and C.is_ext_call(ctx, a2.value, h, ("builtins.int",)) and a2.value.args and norm(a2.value.args[0]) == hp[0]:
                    convert_int(hp[0])
                else:
                    state["unknown"] = "helper %s rebinds its parameter to %s" % (h.name, norm(a2.value))
        try:
            _, term2 = C.trace(C.cfg_of(h), C.cfg_of(h).entry, lambda e2: atom_for(e2, hp[0], h), visit=visit2)
        except C.Undetermined as exc2:
            state["unknown"] = "helper %s: %s" % (h.name, exc2)
            return
        if state["escape"] or state.get("unknown"):
            return
        if term2 != "exit":
            exc2 = sub["raise"]
            nm2 = norm(exc2.func if isinstance(exc2, ast.Call) else exc2).split(".")[-1] if exc2 is not None else "?"
            state["inline_raise"] = nm2
            return
        r2 = sub["ret"]
        if isinstance(r2, ast.Name) and r2.id == hp[0]:
            return
        if isinstance(r2, ast.Call) and C.is_ext_call(ctx, r2, h, ("builtins.int",)) and r2.args and norm(r2.args[0]) == hp[0]:
            convert_int(hp[0])
            return
        state["unknown"] = "helper %s returns %s" % (h.name, norm(r2) if r2 is not None else "None")

    def visit(n):
        a = n.ast
        if n.kind != "stmt" or state["escape"] or state.get("inline_raise") or state.get("unknown"):
            return
        if isinstance(a, ast.Assign) and len(a.targets) == 1 and isinstance(a.targets[0], ast.Name) and a.targets[0].id == var:
            v = a.value
            if isinstance(v, ast.Call) and C.is_ext_call(ctx, v, fn, ("builtins.int",)) and v.args and isinstance(v.args[0], ast.Name) and v.args[0].id == var:
                convert_int(var)
                if state["escape"]:
                    # the conversion stands in a try block: a handler for ValueError decides what the caller sees
                    child, par = a, ctx.prog.parent.get(a)
                    while par is not None and par is not fn.node:
                        if isinstance(par, ast.Try) and child in par.body:
                            hs = [h for h in par.handlers if h.type is None or any(k in norm(h.type) for k in ("ValueError", "Exception", "BaseException"))]
                            if hs:
                                last = hs[0].body[-1] if hs[0].body else None
                                if isinstance(last, ast.Raise) and last.exc is not None:
                                    state["escape"] = None
                                    state["inline_raise"] = norm(last.exc.func if isinstance(last.exc, ast.Call) else last.exc).split(".")[-1]
                                else:
                                    state["escape"] = None
                                    state["unknown"] = "int(%s) fails inside a try block whose handler does not end in a raise; what happens then is not followed" % var
                                break
                        child, par = par, ctx.prog.parent.get(par)
            elif isinstance(v, ast.Call) and len(v.args) == 1 and isinstance(v.args[0], ast.Name) and v.args[0].id == var and not v.keywords and C.targets_of(ctx, fn, v):
                tg = C.targets_of(ctx, fn, v)
                if len(tg) == 1:
                    inline_conversion(tg[0])
                else:
                    state["unknown"] = "the argument is rebound to %s" % norm(v)
            else:
                state["unknown"] = "the argument is rebound to %s (not understood)" % norm(v)
        elif isinstance(a, ast.Assign) and len(a.targets) == 1 and isinstance(a.targets[0], ast.Name) and mentions_bits(a.value):
            try:
                env[a.targets[0].id] = int_eval(a.value)
            except (LookupError, TypeError, ValueError, OverflowError):
                env.pop(a.targets[0].id, None)
                if not state["escape"]:
                    state["unknown"] = "the local %s = %s is not exact integer arithmetic over the argument" % (a.targets[0].id, norm(a.value))
        elif isinstance(a, ast.Return):
            state["ret"] = a.value
        elif isinstance(a, ast.Raise):
            state["raise"] = a.exc

    def mentions_bits(e_):
        return any((isinstance(n_, ast.Attribute) and n_.attr == "bit_length") or (isinstance(n_, ast.Name) and n_.id in env) for n_ in ast.walk(e_))

    def cmp_value(node, var=var):
        if isinstance(node, ast.Name) and node.id == var:
            if not numeric():
                raise TypeError
            return x
        v = fold(node, consts)
        if v is None:
            if var == fn.params[0] and mentions_bits(node):
                return int_eval(node)
            raise LookupError
        return v

    def atom(e):
        return atom_for(e, var, fn)

    def atom_for(e, var, fn):
        if state["escape"] or state.get("inline_raise") or state.get("unknown"):
            return False
        # a predicate helper of the package applied to the value:  is_power_of_two(x)
        if isinstance(e, ast.Call) and len(e.args) == 1 and isinstance(e.args[0], ast.Name) and e.args[0].id == var and not e.keywords and not isinstance(e.func, ast.Attribute):
            tg = C.targets_of(ctx, fn, e)
            if len(tg) == 1:
                h = tg[0]
                hp = [p_ for p_ in h.params if p_ != h.self_name]
                rets = [n_ for n_ in own_nodes(h.node) if isinstance(n_, ast.Return)]
                if len(hp) == 1 and len(rets) == 1 and len(h.node.body) - (1 if isinstance(h.node.body[0], ast.Expr) and isinstance(getattr(h.node.body[0], "value", None), ast.Constant) else 0) == 1 \
                        and rets[0].value is not None:
                    return C.eval3(rets[0].value, lambda e2: atom_for(e2, hp[0], h))
                return None
        txt = norm(e)
        if txt in fv:
            return fv[txt]
        if isinstance(e, ast.Call) and C.is_ext_call(ctx, e, fn, ("builtins.isinstance",)) and len(e.args) == 2 \
                and isinstance(e.args[0], ast.Name) and e.args[0].id == var:
            ty = norm(e.args[1])
            if ty == "str":
                return state["kind"].startswith("str")
            if ty == "int":
                return state["kind"] == "int"
            return None
        if isinstance(e, ast.Call) and isinstance(e.func, ast.Attribute) and isinstance(e.func.value, ast.Name) and e.func.value.id == var \
                and e.func.attr in ("isdecimal", "isdigit", "isnumeric"):
            if not state["kind"].startswith("str"):
                state["escape"] = "%s() on an int" % e.func.attr
                return False
            if e.func.attr == "isdecimal":
                return state["kind"] == "str-decimal"
            return state["kind"] in ("str-decimal", "str-numeric")
        kind = exact_pow2_test(e, var)
        if kind is not None:
            if not numeric():
                state["escape"] = "bit arithmetic on a string"
                return False
            if x <= 0:
                # for x <= 0 the spellings differ (bin() and bit_count() look at the magnitude only, x & (x-1) does not):
                # evaluate the form that is written, concretely - it is exact integer arithmetic
                txt_ = norm(e)
                if "bit_count" in txt_:
                    one = bin(x).count("1") == 1
                elif "bin(" in txt_:
                    one = bin(x).count("1") == 1
                elif "& -" in txt_ or "-%s &" % var in txt_:
                    one = (x & -x) == x
                elif "bit_length" in txt_:
                    one = x < 0 and False      # 1 << (bits - 1) == x never holds for x < 0; for x == 0 the shift count is negative
                    if x == 0:
                        state["escape"] = "negative shift count for 0"
                        return False
                else:
                    one = (x & (x - 1)) == 0
                return one if kind == "pow2" else (not one)
            return cell.pow2 if kind == "pow2" else (not cell.pow2)
        if isinstance(e, ast.Compare):
            try:
                vals = [cmp_value(e.left, var)] + [cmp_value(c, var) for c in e.comparators]
            except TypeError:
                state["escape"] = "ordering comparison between a string and a number raises TypeError"
                return False
            except LookupError:
                return None
            ok = True
            for (l, r), op in zip(zip(vals, vals[1:]), e.ops):
                if isinstance(op, ast.Lt):
                    ok = ok and l < r
                elif isinstance(op, ast.LtE):
                    ok = ok and l <= r
                elif isinstance(op, ast.Gt):
                    ok = ok and l > r
                elif isinstance(op, ast.GtE):
                    ok = ok and l >= r
                elif isinstance(op, ast.Eq):
                    ok = ok and l == r
                elif isinstance(op, ast.NotEq):
                    ok = ok and l != r
                else:
                    return None
            return ok
        if isinstance(e, ast.Name) and e.id == var:
            if numeric():
                return x != 0
            return True
        return None

    # Soundness of using one representative per cell: every comparison is between the variable and constants that are
    # region boundaries, and power-of-two-ness is an explicit coordinate, so all members of a cell decide alike.
    try:
        def no_loops(n_):
            # a loop over values this evaluator does not produce (a generator of readings, a table): how often it runs is unknown
            raise C.Undetermined("the loop `for %s in %s` is not evaluated" % (norm(n_.ast.target), norm(n_.ast.iter)[:40]) if isinstance(n_.ast, ast.For) else "a loop is not evaluated")
        visited, term = C.trace(g, g.entry, atom, visit=visit, iter_decide=no_loops)
    except C.Undetermined as exc:
        return "undetermined", str(exc)
    if state.get("unknown"):
        return "undetermined", state["unknown"]
    if state["escape"]:
        # inside a try whose handler converts?  (trace follows normal edges only; an escaping error is reported)
        return "escape", state["escape"]
    if state.get("inline_raise"):
        return ("plve", "") if state["inline_raise"] == "PieceLengthValueError" else ("other-exc", "raises %s" % state["inline_raise"])
    if term == "exit":
        r = state["ret"]
        if r is None:
            return "none", "falls off the end"
        if isinstance(r, ast.Name) and r.id == var:
            return ("self", "") if state["kind"] == "int" else ("other-return", "returns the unconverted string")
        if isinstance(r, ast.BinOp) and ((isinstance(r.op, ast.Pow) and fold(r.left) == 2) or (isinstance(r.op, ast.LShift) and fold(r.left) == 1)) \
                and isinstance(r.right, ast.Name) and r.right.id == var:
            return "exp", ""
        if isinstance(r, ast.Call) and C.is_ext_call(ctx, r, fn, ("builtins.int",)) and r.args and isinstance(r.args[0], ast.Name) and r.args[0].id == var:
            return "self", ""
        return "other-return", "returns %s" % norm(r)
    exc = state["raise"]
    if exc is None:
        return "other-exc", "leaves exceptionally"
    name = exc.func if isinstance(exc, ast.Call) else exc
    if norm(name).split(".")[-1] == "PieceLengthValueError":
        return "plve", ""
    return "other-exc", "raises %s" % norm(name)


def automatic(ctx):
    fn = ctx.prog.func("torrentfile.utils:get_piece_length")
    size = fn.params[0]
    mc = {}
    for k, v in fn.module.assigns.items():
        if len(v) == 1 and fold(v[0], mc) is not None:
            mc[k] = fold(v[0], mc)
    _fold = fold

    def fold_c(node, consts=None):
        return _fold(node, mc)
    rets = [n for n in own_nodes(fn.node) if isinstance(n, ast.Return) and n.value is not None]
    if len(rets) != 1:
        ctx.undecided("C12.2", fn, "expected a single return")
        return
    r = rets[0].value
    pow_form = isinstance(r, ast.BinOp) and ((isinstance(r.op, ast.Pow) and fold_c(r.left) == 2) or (isinstance(r.op, ast.LShift) and fold_c(r.left) == 1))
    if not pow_form:
        ctx.violated("C12.2", fn, "the automatic piece length is not returned as 2**e / 1 << e: it need not be a power of two", rets[0])
        return
    if not isinstance(r.right, ast.Name):
        ctx.holds("C12.2", fn, "result is 2**(%s): a power of two by construction" % norm(r.right)[:50], rets[0])
        _exponent_by_search(ctx, fn, r.right, size, fold_c)
        return
    e = r.right.id
    ctx.holds("C12.2", fn, "result is 2**%s: a power of two by construction" % e, rets[0])
    inits, incs, others = [], [], []
    for n in own_nodes(fn.node):
        if isinstance(n, ast.Assign) and any(isinstance(t, ast.Name) and t.id == e for t in n.targets):
            v = fold_c(n.value)
            (inits if v is not None else others).append((n, v))
        elif isinstance(n, ast.AugAssign) and isinstance(n.target, ast.Name) and n.target.id == e:
            if isinstance(n.op, ast.Add) and fold_c(n.value) == 1:
                incs.append(n)
            else:
                others.append((n, None))
        elif isinstance(n, (ast.For, ast.comprehension)) and any(isinstance(t, ast.Name) and t.id == e for t in ast.walk(n.target)):
            others.append((n, None))
    if others or len(inits) != 1:
        ctx.undecided("C12.2", fn, "exponent %s is defined in a way the loop-bound analysis does not understand" % e, others[0][0] if others else fn.node)
        return
    c0 = inits[0][1]
    ctx.decide("C12.2", fn, c0 >= 14, "exponent starts at %d (>= 14): result >= 16 KiB" % c0,
               "exponent starts at %d: the automatic choice can be below 16 KiB" % c0, inits[0][0])
    # every increment sits in a while loop whose test has a conjunct  e < K  /  e <= K-1
    bound = None
    mono = None
    for inc in incs:
        loop = ctx.prog.parent.get(inc)
        while loop is not None and not isinstance(loop, (ast.While, ast.FunctionDef)):
            loop = ctx.prog.parent.get(loop)
        if not isinstance(loop, ast.While):
            ctx.undecided("C12.2", fn, "increment outside a while loop", inc)
            return
        conj = loop.test.values if isinstance(loop.test, ast.BoolOp) and isinstance(loop.test.op, ast.And) else [loop.test]
        b = None
        for c in conj:
            if isinstance(c, ast.Compare) and len(c.ops) == 1 and isinstance(c.left, ast.Name) and c.left.id == e:
                k = fold_c(c.comparators[0])
                if k is not None and isinstance(c.ops[0], ast.Lt):
                    b = k
                elif k is not None and isinstance(c.ops[0], ast.LtE):
                    b = k + 1
                elif k is not None and isinstance(c.ops[0], ast.NotEq):
                    b = k if k >= c0 else None
            elif isinstance(c, ast.Compare) and len(c.ops) == 1 and isinstance(c.comparators[0], ast.Name) and c.comparators[0].id == e:
                k = fold_c(c.left)
                if k is not None and isinstance(c.ops[0], ast.Gt):
                    b = k
                elif k is not None and isinstance(c.ops[0], ast.GtE):
                    b = k + 1
            else:
                m = upward_closed(c, size)
                mono = m if mono is None else (mono and m)
        if b is None:
            ctx.violated("C12.2", fn, "the loop that raises the exponent has no constant upper bound on it: the result can exceed 16 MiB", loop)
            return
        bound = b if bound is None else max(bound, b)
    if not incs:
        bound = c0
    ctx.decide("C12.2", fn, bound <= 24, "exponent is bounded by %d (<= 24): result <= 16 MiB" % bound,
               "exponent can reach %d: the automatic choice can exceed 16 MiB (2**24)" % bound, "loop bound of " + e)
    if incs:
        if mono is None:
            ctx.undecided("C12.2", fn, "no size-dependent continuation condition found", "monotonicity")
        else:
            ctx.decide("C12.2", fn, mono, "the continuation test is upward-closed in %s: a larger payload never gets a smaller piece length" % size,
                       "the continuation test is not upward-closed in %s: the chosen piece length can decrease as the payload grows" % size, "monotonicity")
    # the size handed in is the payload size
    ppl = ctx.prog.func("torrentfile.utils:path_piece_length")
    flow = Flow(ctx.prog, ctx.res, stop_funcs=[ppl])
    calls = [n for n in own_nodes(ppl.node) if isinstance(n, ast.Call) and any(t[0] == "pkg" and t[1] is fn for t in ctx.res.call_targets(n, ppl))]
    rets = [n for n in own_nodes(ppl.node) if isinstance(n, ast.Return)]
    ok = bool(calls) and all(isinstance(r.value, ast.Call) and r.value in calls for r in rets)
    if not ok and not calls and any(isinstance(x, ast.Call) and C.targets_of(ctx, ppl, x) for r in rets if r.value is not None for x in ast.walk(r.value)):
        # the value comes out of another package function (a record that carries the choice, say): where it is computed was not followed
        ctx.undecided("C12.2", ppl, "path_piece_length returns `%s`; whether that is the automatic choice for the payload size was not followed" % norm(rets[0].value)[:60], "path_piece_length")
    else:
        ctx.decide("C12.2", ppl, ok, "path_piece_length returns get_piece_length(...) unchanged", "path_piece_length does not return the automatic choice unchanged", "path_piece_length")


def _exponent_by_search(ctx, fn, e, size, fold_c):
    """Exponent written as  next((x for x in range(a, b) if <test>), default): the first candidate that passes."""
    if isinstance(e, ast.Call) and norm(e.func) == "next" and len(e.args) == 2 and isinstance(e.args[0], ast.Name):
        vals = [p_ for w_, p_ in ctx.res.bindings(fn).get(e.args[0].id, []) if w_ == "value"]
        if len(vals) == 1 and isinstance(vals[0], ast.GeneratorExp):
            e = ast.Call(func=e.func, args=[vals[0], e.args[1]], keywords=[])
    if _exponent_clamped(ctx, fn, e, size, fold_c):
        return
    ok_shape = isinstance(e, ast.Call) and norm(e.func) == "next" and len(e.args) == 2 and isinstance(e.args[0], ast.GeneratorExp) and len(e.args[0].generators) == 1
    if ok_shape:
        gen = e.args[0].generators[0]
        rng = gen.iter
        ok_shape = isinstance(rng, ast.Call) and norm(rng.func) == "range" and len(rng.args) == 2 and isinstance(gen.target, ast.Name) and norm(e.args[0].elt) == gen.target.id
    if not ok_shape:
        ctx.undecided("C12.2", fn, "the exponent `%s` is computed in a way the bound analysis does not understand" % norm(e)[:60], "loop bound of exponent")
        return
    a, b, dflt = fold_c(rng.args[0]), fold_c(rng.args[1]), fold_c(e.args[1])
    if None in (a, b, dflt):
        ctx.undecided("C12.2", fn, "the bounds of the exponent search are not constants", "loop bound of exponent")
        return
    lo, hi = min(a, dflt), max(b - 1, dflt)
    ctx.decide("C12.2", fn, lo >= 14, "exponent is at least %d (>= 14): result >= 16 KiB" % lo, "exponent can be %d: the automatic choice can be below 16 KiB" % lo, "exponent lower bound")
    ctx.decide("C12.2", fn, hi <= 24, "exponent is bounded by %d (<= 24): result <= 16 MiB" % hi, "exponent can reach %d: the automatic choice can exceed 16 MiB (2**24)" % hi, "loop bound of exponent")
    # first exponent whose test passes; the test is `not (f(size) > const)` with f non-decreasing in size: a larger payload
    # passes later, never earlier
    mono = None
    if len(gen.ifs) == 1:
        t = gen.ifs[0]
        if isinstance(t, ast.UnaryOp) and isinstance(t.op, ast.Not):
            mono = upward_closed(t.operand, size)
        elif isinstance(t, ast.Compare) and len(t.ops) == 1 and isinstance(t.ops[0], (ast.LtE, ast.Lt)):
            flipped = ast.Compare(left=t.left, ops=[ast.Gt() if isinstance(t.ops[0], ast.LtE) else ast.GtE()], comparators=t.comparators)
            mono = upward_closed(flipped, size)
    if mono is None:
        ctx.undecided("C12.2", fn, "the search condition of the exponent is not of the form not (f(size) > const)", "monotonicity")
    else:
        ctx.decide("C12.2", fn, mono, "the exponent search stops later, never earlier, for a larger %s: the piece length never decreases as the payload grows" % size,
                   "the exponent search condition is not monotone in %s" % size, "monotonicity")


def _exponent_clamped(ctx, fn, e, size, fold_c):
    """Exponent written as a clamp  min(max(X, a), b)  /  max(min(X, b), a)  with constant a <= b: whatever X is, the exponent lies
    in [a, b]; the choice never decreases as the payload grows when X is non-decreasing in the size (bit length of a
    non-negative non-decreasing quantity included).  Returns True when the form was recognised (facts emitted)."""
    def call(n, name):
        return isinstance(n, ast.Call) and isinstance(n.func, ast.Name) and n.func.id == name and len(n.args) == 2 and not n.keywords \
            and not any(isinstance(t, ast.Name) and t.id == name and isinstance(t.ctx, ast.Store) for t in own_nodes(fn.node))

    def split(n, name):
        ks = [(fold_c(a), b) for a, b in ((n.args[0], n.args[1]), (n.args[1], n.args[0])) if fold_c(a) is not None and fold_c(b) is None]
        return ks[0] if len(ks) == 1 else (None, None)
    a = b = x = None
    if call(e, "min"):
        b, inner = split(e, "min")
        if inner is not None and call(inner, "max"):
            a, x = split(inner, "max")
    elif call(e, "max"):
        a, inner = split(e, "max")
        if inner is not None and call(inner, "min"):
            b, x = split(inner, "min")
    if a is None or b is None or x is None or a > b:
        return False
    ctx.decide("C12.2", fn, a >= 14, "exponent is clamped to at least %d (>= 14): result >= 16 KiB" % a, "exponent can be %d: the automatic choice can be below 16 KiB" % a, "exponent lower bound")
    ctx.decide("C12.2", fn, b <= 24, "exponent is clamped to at most %d (<= 24): result <= 16 MiB" % b, "exponent can reach %d: the automatic choice can exceed 16 MiB (2**24)" % b, "loop bound of exponent")
    binds = ctx.res.bindings(fn)

    def value_of(n, depth=0):
        if isinstance(n, ast.Name) and n.id != size and depth < 4:
            vals = [p_ for w_, p_ in binds.get(n.id, [])]
            kinds = [w_ for w_, p_ in binds.get(n.id, [])]
            if len(vals) == 1 and kinds == ["value"]:
                return vals[0]
        return n

    def mentions(n):
        return any(isinstance(t, ast.Name) and (t.id == size or value_of(t) is not t) for t in ast.walk(n))

    def nonneg(n, depth=0):
        n = value_of(n)
        if depth > 6:
            return False
        k = fold_c(n)
        if k is not None:
            return k >= 0
        if isinstance(n, ast.Name) and n.id == size:
            return True          # a payload size
        if isinstance(n, ast.Call) and isinstance(n.func, ast.Name) and n.func.id == "max" and not n.keywords:
            return any(nonneg(a_, depth + 1) for a_ in n.args)
        if isinstance(n, ast.Call) and isinstance(n.func, ast.Attribute) and n.func.attr == "bit_length":
            return True
        if isinstance(n, ast.BinOp) and isinstance(n.op, (ast.FloorDiv, ast.RShift, ast.Mult, ast.Add)):
            kr = fold_c(n.right)
            return nonneg(n.left, depth + 1) and kr is not None and (kr > 0 or (kr == 0 and not isinstance(n.op, ast.FloorDiv)))
        return False

    def nondecr(n, depth=0):
        n = value_of(n)
        if depth > 6:
            return False
        if isinstance(n, ast.Name):
            return n.id == size
        if isinstance(n, ast.BinOp) and not mentions(n.right):
            kr = fold_c(n.right)
            if isinstance(n.op, (ast.Add, ast.Sub)):
                return nondecr(n.left, depth + 1)
            if isinstance(n.op, (ast.FloorDiv, ast.RShift, ast.Mult)) and kr is not None and kr > 0:
                return nondecr(n.left, depth + 1)
            if isinstance(n.op, ast.Div) and kr is not None and kr > 0:
                return nondecr(n.left, depth + 1)
            return False
        if isinstance(n, ast.Call) and isinstance(n.func, ast.Name) and n.func.id in ("max", "min") and not n.keywords and n.args:
            return all(fold_c(a_) is not None or nondecr(a_, depth + 1) for a_ in n.args) and any(fold_c(a_) is None for a_ in n.args)
        if isinstance(n, ast.Call) and isinstance(n.func, ast.Attribute) and n.func.attr == "bit_length" and not n.args:
            return nondecr(n.func.value, depth + 1) and nonneg(n.func.value)
        return False
    if nondecr(x):
        ctx.holds("C12.2", fn, "the clamped exponent `%s` is non-decreasing in %s: a larger payload never gets a smaller piece length" % (norm(value_of(x))[:60], size), "monotonicity")
    else:
        ctx.undecided("C12.2", fn, "whether the clamped exponent `%s` is non-decreasing in %s was not established" % (norm(value_of(x))[:60], size), "monotonicity")
    return True


def upward_closed(c, size):
    """Condition of the form  f(size) > const  with f non-decreasing in size."""
    if not (isinstance(c, ast.Compare) and len(c.ops) == 1):
        return False
    l, op, r = c.left, c.ops[0], c.comparators[0]

    def mentions(n):
        return any(isinstance(x, ast.Name) and x.id == size for x in ast.walk(n))

    def nondecreasing(n):
        if isinstance(n, ast.Name) and n.id == size:
            return True
        if isinstance(n, ast.BinOp) and isinstance(n.op, (ast.Div, ast.FloorDiv, ast.RShift, ast.Mult, ast.Add, ast.Sub)) and nondecreasing(n.left) and not mentions(n.right):
            return True
        return False
    if isinstance(op, (ast.Gt, ast.GtE)) and nondecreasing(l) and not mentions(r):
        return True
    if isinstance(op, (ast.Lt, ast.LtE)) and nondecreasing(r) and not mentions(l):
        return True
    return False


def routes(ctx):
    init = ctx.prog.func("torrentfile.torrent:MetaFile.__init__")
    norm_fn = ctx.prog.func("torrentfile.utils:normalize_piece_length")
    auto_fns = {ctx.prog.func("torrentfile.utils:path_piece_length"), ctx.prog.func("torrentfile.utils:get_piece_length")}
    flow = Flow(ctx.prog, ctx.res, stop_funcs=[init])
    # a constructor split into steps: methods only the constructor calls belong to it
    helpers = dict(C.constructor_helpers(ctx, init))

    def is_option(m, arg):
        """arg names the piece_length argument of the constructor (directly, or as the parameter a construction step received it in)."""
        if not isinstance(arg, ast.Name):
            return False
        if m is init:
            return arg.id == "piece_length"
        bound = ctx.res.bind_args(m, helpers[m], True)
        b = bound.get(arg.id)
        reassigned = any(isinstance(x, ast.Name) and x.id == arg.id and isinstance(x.ctx, ast.Store) for x in own_nodes(m.node))
        return isinstance(b, ast.Name) and b.id == "piece_length" and not reassigned
    # writers of the attribute
    stores = flow.attr_stores(init.cls, "piece_length")
    direct = 0
    for val, m, site, idx in stores:
        if m is None:
            ctx.violated("C12.3", None, "class-level assignment to piece_length", site)
            continue
        g = C.cfg_of(m)
        if m is not init and m not in helpers:
            ctx.violated("C12.3", m, "piece_length is assigned outside MetaFile.__init__: the recorded value is no longer the normaliser's result", site)
            continue
        if isinstance(val, ast.IfExp):
            # self.piece_length = normalise(x) if <given> else automatic(...)
            arms = [(val.body, val.test, True), (val.orelse, val.test, False)]
            all_ok = True
            for arm, test, pol in arms:
                okc = isinstance(arm, ast.Call) and all(t[0] == "pkg" and (t[1] is norm_fn or t[1] in auto_fns) for t in ctx.res.call_targets(arm, m))
                if not okc:
                    all_ok = False
                    ctx.violated("C12.3", m, "piece_length is assigned %s on one arm, which is not the unchanged result of the normaliser or of the automatic choice" % norm(arm), site)
                    continue
                direct += 1
                tg = ctx.res.call_targets(arm, m)[0][1]
                if tg is norm_fn:
                    arg = arm.args[0] if arm.args else None
                    ctx.decide("C12.3", m, is_option(m, arg), "self.piece_length = normalize_piece_length(<the piece_length argument>)",
                               "the normaliser is not applied to the piece_length argument itself", site)
                    t_ = test
                    if isinstance(t_, ast.Name):
                        vals_ = [p_ for w_, p_ in ctx.res.bindings(m).get(t_.id, []) if w_ == "value"]
                        t_ = vals_[0] if len(vals_) == 1 else t_
                    truthy = any(is_option(m, a) for a in C.atoms_of(t_))
                    if truthy:
                        ctx.violated("C12.3", m, "whether a piece length was supplied is decided by truthiness (%s): the integer 0 is silently treated as 'not given' and a metafile is produced instead of the piece-length error" % norm(t_), t_)
                    else:
                        ctx.holds("C12.3", m, "supplied / not supplied is decided by %s" % norm(t_), t_)
                else:
                    ctx.holds("C12.3", m, "self.piece_length = automatic choice, unchanged", norm(site) + " :: automatic arm")
            continue
        ok = isinstance(val, ast.Call) and all(t[0] == "pkg" and (t[1] is norm_fn or t[1] in auto_fns) for t in ctx.res.call_targets(val, m))
        if not ok and isinstance(val, ast.Call):
            # self.piece_length = self._select(piece_length): a method of the class that returns, on every path, the unchanged
            # result of the normaliser (applied to the argument) or of the automatic choice
            helped = _route_through_helper(ctx, m, val, norm_fn, auto_fns)
            if helped is not None:
                direct += 2
                for okh, good, bad, node, hfn in helped:
                    ctx.decide("C12.3", hfn, okh, good, bad, node)
                continue
        if ok:
            direct += 1
            tg = ctx.res.call_targets(val, m)[0][1]
            if tg is norm_fn:
                arg = val.args[0] if val.args else None
                a_ok = is_option(m, arg)
                ctx.decide("C12.3", m, a_ok, "self.piece_length = normalize_piece_length(<the piece_length argument>)",
                           "the normaliser is not applied to the piece_length argument itself", site)
                # 'not given' must mean None / '' - not falsy
                n = C.stmt_node(ctx, m, site)
                deps = g.direct_control_deps(n)
                for b, lab in deps:
                    t = C.test_expr(b)
                    if t is None:
                        continue
                    truthy = any(is_option(m, a) for a in C.atoms_of(t))
                    if truthy:
                        ctx.violated("C12.3", m, "whether a piece length was supplied is decided by truthiness (%s): the integer 0 is silently treated as 'not given' and a metafile is produced instead of the piece-length error" % norm(t), t)
                    else:
                        ctx.holds("C12.3", m, "supplied / not supplied is decided by %s" % norm(t), t)
            else:
                ctx.holds("C12.3", m, "self.piece_length = automatic choice, unchanged", site)
        else:
            base = val
            while isinstance(base, (ast.Attribute, ast.Subscript)):
                base = base.value
            via_call = False
            if isinstance(base, ast.Name):
                vals_ = [p_ for w_, p_ in ctx.res.bindings(m).get(base.id, []) if w_ in ("value", "unpack")]
                via_call = bool(vals_) and all(isinstance(v_[0] if isinstance(v_, tuple) else v_, ast.Call) and C.targets_of(ctx, m, v_[0] if isinstance(v_, tuple) else v_) for v_ in vals_)
            if via_call:
                # a field / element of what a package function returned (a record carrying the choice): where the value comes from
                # is decided in that function, which was not followed
                ctx.undecided("C12.3", m, "piece_length is assigned %s, part of the result of a package function; whether that is the unchanged result of the normaliser or of the automatic choice was not followed" % norm(val), site)
            else:
                ctx.violated("C12.3", m, "piece_length is assigned %s, which is not the unchanged result of the normaliser or of the automatic choice" % norm(val), site)
    ctx.floor("assignments of MetaFile.piece_length", 2, direct)
    # the recorded value
    rec = 0
    for F in [init] + list(helpers):
        for n in own_nodes(F.node):
            if isinstance(n, ast.Assign) and len(n.targets) == 1 and isinstance(n.targets[0], ast.Subscript) and const_str(n.targets[0].slice) == "piece length":
                rec += 1
                v = n.value
                ok = isinstance(v, ast.Attribute) and isinstance(v.value, ast.Name) and v.value.id == F.self_name and v.attr == "piece_length"
                ctx.decide("C12.3", F, ok, "info['piece length'] = self.piece_length (unchanged)", "info['piece length'] is %s, not the normalised attribute" % norm(v), n)
    ctx.floor("stores of info['piece length']", 1, rec)
    # nobody else writes info['piece length'] in the creators
    for f in ctx.prog.functions.values():
        if f is init or f in helpers or f.module.name not in ("torrentfile.torrent", "torrentfile.hasher"):
            continue
        for n in own_nodes(f.node):
            if isinstance(n, ast.Subscript) and isinstance(n.ctx, ast.Store) and const_str(n.slice) == "piece length":
                ctx.violated("C12.3", f, "info['piece length'] is overwritten outside MetaFile.__init__", n)
            if isinstance(n, ast.Attribute) and isinstance(n.ctx, ast.Store) and n.attr == "piece_length" and f.cls is not None and init.cls in ctx.prog.mro(f.cls) and f.cls is not init.cls:
                ctx.violated("C12.3", f, "a creator subclass overwrites piece_length", n)


def _route_through_helper(ctx, m, call, norm_fn, auto_fns):
    """[(ok, text if ok, text if not, node, function)] for a helper method that selects the piece length, or None if `call`
    is not a call of one method of the class family whose returns can all be read."""
    tg = [t for t in C.targets_of(ctx, m, call) if t.cls is not None and m.cls is not None and (m.cls in ctx.prog.mro(t.cls) or t.cls in ctx.prog.mro(m.cls))]
    if len(tg) != 1:
        return None
    H = tg[0]
    bound = ctx.res.bind_args(H, call, not H.is_static)
    pnames = [p_ for p_, a_ in bound.items() if isinstance(a_, ast.Name) and a_.id == "piece_length"]
    if len(pnames) != 1:
        return None
    pn = pnames[0]
    g = C.cfg_of(H)
    out = []
    rets = [r for r in own_nodes(H.node) if isinstance(r, ast.Return) and r.value is not None]
    if not rets:
        return None
    for r in rets:
        v = r.value
        if isinstance(v, ast.Name):
            vals = [p_ for w_, p_ in ctx.res.bindings(H).get(v.id, []) if w_ == "value"]
            if len(vals) != 1 or len(ctx.res.bindings(H).get(v.id, [])) != 1:
                return None
            v = vals[0]
        if not isinstance(v, ast.Call):
            out.append((False, "", "%s returns %s, which is not the unchanged result of the normaliser or of the automatic choice" % (H.name, norm(r.value)), r, H))
            continue
        tgs = C.targets_of(ctx, H, v)
        if tgs and all(t is norm_fn for t in tgs):
            arg = v.args[0] if v.args else None
            out.append((isinstance(arg, ast.Name) and arg.id == pn, "%s returns normalize_piece_length(<the piece_length argument>)" % H.name,
                        "the normaliser is not applied to the piece_length argument itself", v, H))
            # 'not given' must mean None / '' - not falsy
            vn = C.stmt_node(ctx, H, v)
            for b, lab in g.control_deps(vn):
                t = C.test_expr(b)
                if t is None:
                    continue
                truthy = any(isinstance(a, ast.Name) and a.id == pn for a in C.atoms_of(t))
                out.append((not truthy, "supplied / not supplied is decided by %s" % norm(t),
                            "whether a piece length was supplied is decided by truthiness (%s): the integer 0 is silently treated as 'not given' and a metafile is produced instead of the piece-length error" % norm(t), t, H))
        elif tgs and all(t in auto_fns for t in tgs):
            out.append((True, "%s returns the automatic choice, unchanged" % H.name, "", r, H))
        else:
            out.append((False, "", "%s returns %s, which is not the unchanged result of the normaliser or of the automatic choice" % (H.name, norm(v)), r, H))
    return out


def automatic_input(ctx):
    """C12.2: 'never decreases as the payload grows' is about the payload the metafile describes.  The size handed to the
    automatic choice must therefore be the total of the very listing the creators hash (utils.filelist_total): a second walk
    of the tree (os.walk, scandir, glob ...) disagrees with it wherever the two enumerations differ - directories reached
    through symbolic links, entries that are not regular files - and a larger payload then gets a smaller piece length."""
    from tfsa.flow import Flow, walk_terms, show
    gpl = ctx.prog.func("torrentfile.utils:get_piece_length")
    listing = [f for f in ctx.prog.functions.values() if f.module.name == "torrentfile.utils" and f.name == "filelist_total"]
    if not listing:
        ctx.undecided("C12.2", None, "anchor vanished: utils.filelist_total")
        return
    fl = Flow(ctx.prog, ctx.res, opaque_funcs=listing)
    n = 0
    for caller, call, bound in ctx.res.callsites_of(gpl):
        if caller is None or not call.args:
            continue
        n += 1
        t = fl.term(call.args[0], caller)
        walks = sorted({x[1] for x in walk_terms(t) if x[0] == "ext" and x[1] in ("os.walk", "os.scandir", "os.listdir", "glob.glob", "glob.iglob")} |
                       {"Path.%s" % x[1] for x in walk_terms(t) if x[0] == "meth" and x[1] in ("iterdir", "glob", "rglob")})
        from_listing = any(x[0] == "pkgcall" and x[1] == listing[0].qual for x in walk_terms(t))
        if not walks and not from_listing:
            # the value travels in a way the origin terms do not follow (a field of a result object ...): fall back on
            # which enumerations of the file system the computation can reach at all
            inside = set(C.reach(ctx, listing, allow_approx=False)) | set(listing)
            mine = [f_ for f_ in (set(C.reach(ctx, [caller], allow_approx=False)) | {caller}) if f_ not in inside]
            for f_ in mine:
                for c_ in own_nodes(f_.node):
                    if isinstance(c_, ast.Call):
                        if C.is_ext_call(ctx, c_, f_, ("os.walk", "os.scandir", "os.listdir", "glob.glob", "glob.iglob")):
                            walks.append(norm(c_.func) + " in " + f_.name)
                        elif isinstance(c_.func, ast.Attribute) and c_.func.attr in ("iterdir", "rglob") and any(k == ("path",) for k in ctx.res.kinds(c_.func.value, f_)):
                            walks.append("Path.%s in %s" % (c_.func.attr, f_.name))
            from_listing = not walks and any(f_ in inside for f_ in C.reach(ctx, [caller], allow_approx=False))
        if walks:
            ctx.violated("C12.2", caller, "the payload size that picks the piece length comes from a walk of its own (%s), not from the listing the creators hash: where the two enumerations differ "
                         "(a directory reached through a symbolic link) files that are hashed are not counted, and a larger payload gets a smaller piece length" % ", ".join(walks), call)
        elif from_listing:
            ctx.holds("C12.2", caller, "the payload size that picks the piece length is the total of utils.filelist_total, the listing that is hashed", call)
        else:
            ctx.undecided("C12.2", caller, "where the payload size handed to get_piece_length comes from is not understood (%s)" % show(t, maxdepth=2)[:80], call)
    ctx.floor("call sites of the automatic piece-length choice", 1, n)


def run(ctx):
    ctx.trust("CPython integer / string semantics of the predicates used (isdecimal, comparisons, bit operations)")
    normaliser(ctx)
    automatic(ctx)
    automatic_input(ctx)
    routes(ctx)


_NEW = '''    if 13 < piece_length < 26:
        return 2**piece_length

    if piece_length >= (1 << 14) and not piece_length & (piece_length - 1):
        return piece_length
    raise PieceLengthValueError(piece_length)
'''
_OLD = '''    if piece_length > (1 << 14):
        if 2**math.log2(piece_length) == piece_length:
            return piece_length
        raise PieceLengthValueError(piece_length)

    if 13 < piece_length < 26:
        return 2**piece_length
    if piece_length <= 13:
        raise PieceLengthValueError(piece_length)

    log = int(math.log2(piece_length))
    if 2**log == piece_length:
        return piece_length
    raise PieceLengthValueError
'''
MUTANTS = [
    {"name": "G1-regress-float-pow2-test", "file": "torrentfile/utils.py", "expect": "violated", "rule": "C12.1", "canary": True, "quick": True,
     "what": "pinned-tree defect G1: float comparison, no lower bound, isnumeric",
     "edits": [(_NEW, _OLD), ("import os\nimport ctypes", "import os\nimport math\nimport ctypes"), ("piece_length.isdecimal()", "piece_length.isnumeric()")]},
    {"name": "isnumeric-instead-of-isdecimal", "file": "torrentfile/utils.py", "expect": "violated", "rule": "C12.1", "canary": True,
     "what": "'²' reaches int()", "edits": [("piece_length.isdecimal()", "piece_length.isnumeric()")]},
    {"name": "lower-bound-dropped", "file": "torrentfile/utils.py", "expect": "violated", "rule": "C12.1", "canary": True, "quick": True,
     "what": "powers of two below 16 KiB accepted", "edits": [("    if piece_length >= (1 << 14) and not piece_length & (piece_length - 1):", "    if piece_length > 0 and not piece_length & (piece_length - 1):")]},
    {"name": "lower-bound-strict", "file": "torrentfile/utils.py", "expect": "violated", "rule": "C12.1", "canary": True,
     "what": "16384 itself rejected", "edits": [("    if piece_length >= (1 << 14) and", "    if piece_length > (1 << 14) and")]},
    {"name": "pow2-test-dropped", "file": "torrentfile/utils.py", "expect": "violated", "rule": "C12.1", "canary": True,
     "what": "any value >= 16 KiB accepted", "edits": [(" and not piece_length & (piece_length - 1):", ":")]},
    {"name": "exponent-range-13", "file": "torrentfile/utils.py", "expect": "violated", "rule": "C12.1", "canary": True,
     "what": "exponent 13 accepted (8 KiB)", "edits": [("    if 13 < piece_length < 26:", "    if 12 < piece_length < 26:")]},
    {"name": "exponent-range-short", "file": "torrentfile/utils.py", "expect": "violated", "rule": "C12.1", "canary": True,
     "what": "exponent 25 rejected", "edits": [("    if 13 < piece_length < 26:", "    if 13 < piece_length < 25:")]},
    {"name": "exponent-range-wide", "file": "torrentfile/utils.py", "expect": "violated", "rule": "C12.1", "canary": True,
     "what": "exponents up to 40 accepted", "edits": [("    if 13 < piece_length < 26:", "    if 13 < piece_length < 41:")]},
    {"name": "exponent-returns-shift-off-by-one", "file": "torrentfile/utils.py", "expect": "violated", "rule": "C12.1", "canary": True,
     "what": "returns 2**(n+1)", "edits": [("        return 2**piece_length", "        return 2**(piece_length + 1)")]},
    {"name": "wrong-exception", "file": "torrentfile/utils.py", "expect": "violated", "rule": "C12.1", "canary": True,
     "what": "ValueError instead of the piece-length error", "edits": [("        return piece_length\n    raise PieceLengthValueError(piece_length)", "        return piece_length\n    raise ValueError(piece_length)")]},
    {"name": "auto-start-13", "file": "torrentfile/utils.py", "expect": "violated", "rule": "C12.2", "canary": True,
     "what": "automatic choice may be 8 KiB", "edits": [("    exp = 14\n", "    exp = 13\n")]},
    {"name": "auto-unbounded", "file": "torrentfile/utils.py", "expect": "violated", "rule": "C12.2", "canary": True,
     "what": "no upper bound", "edits": [("    while size / (2**exp) > 1000 and exp < 24:", "    while size / (2**exp) > 1000:")]},
    {"name": "auto-bound-30", "file": "torrentfile/utils.py", "expect": "violated", "rule": "C12.2", "canary": True,
     "what": "upper bound 2**30", "edits": [("and exp < 24:", "and exp < 30:")]},
    {"name": "auto-non-monotone", "file": "torrentfile/utils.py", "expect": "violated", "rule": "C12.2", "canary": True,
     "what": "condition not upward-closed in size", "edits": [("    while size / (2**exp) > 1000 and exp < 24:", "    while size % (2**exp) > 1000 and exp < 24:")]},
    {"name": "auto-not-power", "file": "torrentfile/utils.py", "expect": "violated", "rule": "C12.2", "canary": True,
     "what": "returns size-derived value", "edits": [("    return 2**exp\n", "    return max(2**exp, size // 1000)\n")]},
    {"name": "route-clamped", "file": "torrentfile/torrent.py", "expect": "violated", "rule": "C12.3", "canary": True,
     "what": "creator clamps the normalised value", "edits": [("            self.piece_length = utils.normalize_piece_length(piece_length)", "            self.piece_length = min(utils.normalize_piece_length(piece_length), 2**24 + 1)")]},
    {"name": "route-raw-int", "file": "torrentfile/torrent.py", "expect": "violated", "rule": "C12.3", "canary": True,
     "what": "integers bypass the normaliser", "edits": [("            self.piece_length = utils.normalize_piece_length(piece_length)", "            self.piece_length = piece_length if isinstance(piece_length, int) else utils.normalize_piece_length(piece_length)")]},
    {"name": "route-recorded-differs", "file": "torrentfile/torrent.py", "expect": "violated", "rule": "C12.3", "canary": True,
     "what": "records the raw argument", "edits": [('        self.meta["info"]["piece length"] = self.piece_length', '        self.meta["info"]["piece length"] = piece_length or self.piece_length')]},
    {"name": "G24-regress-truthiness-guard", "file": "torrentfile/torrent.py", "expect": "violated", "rule": "C12.3", "canary": True,
     "what": "defect G24: piece_length=0 silently treated as not given",
     "edits": [('        if piece_length is not None and piece_length != "":', '        if piece_length:')]},
    {"name": "benign-pow2-via-bit-count", "file": "torrentfile/utils.py", "expect": "clean",
     "what": "bit_count() == 1 instead of x & (x-1)", "edits": [(" and not piece_length & (piece_length - 1):", " and piece_length.bit_count() == 1:")]},
    {"name": "benign-branch-order", "file": "torrentfile/utils.py", "expect": "clean",
     "what": "power-of-two branch first", "edits": [(_NEW, '''    if piece_length >= 2**14 and piece_length & (piece_length - 1) == 0:
        return piece_length

    if 14 <= piece_length <= 25:
        return 1 << piece_length
    raise PieceLengthValueError(piece_length)
''')]},
]
QUICK_CANARIES = True

CLAIM = {
    "text": "Decided for every integer and every string: the normaliser's conditions only compare the argument with constants, test string classes and test exact power-of-two-ness, "
            "so the finite abstract domain (interval between consecutive constants x power-of-two flag x string class x free float-test outcomes; when the bit length is read, every power of two - and the negatives of some, for sign-blind primitives - as a cell of its own, integer locals derived from the argument evaluated exactly) is exhaustive; each cell is traced "
            "through the CFG and compared with the specification. The automatic choice is bounded and monotone by loop-bound and polarity analysis; the recorded value is provably "
            "the unchanged return value.",
    "note": "Trusted: CPython semantics of int/str predicates. The command line and the configuration file hand strings to the same keyword (route agreement is C20). "
            "Exponents 26..29 may go either way, as the property allows.",
    "technique": "abstract interpretation over an exhaustive finite predicate domain (region x power-of-two x kind), CFG trace per cell; loop-bound and polarity analysis; def-use of the recorded value",
    "design_ref": "DESIGN.md section 4, C12; section 3.9; appendix C.8",
}
