"""Post-assembly integrity of the metafile dictionary (shared by C01 / C02 / C03 / C10).

The fact tables of the creators describe what `assemble` / `_traverse` put into the metafile.  They say nothing if a later
step (sort_meta, write, a helper called from them) drops, filters, reorders or replaces what was assembled.  This rule
closes that hole with the points-to graph:

  roots   = the dictionary objects bound to `self.meta` in the MetaFile family
  watched = locations (key paths) under the roots that carry the payload description, e.g. info/files
  every statement of the package that
     - removes from / reorders a watched list                                       -> VIOLATED
     - stores a watched key outside the assembling functions, unless the stored value is a recognised
       order-only copy (tfsa.pointsto.sorted_copy_info) of what is already there    -> VIOLATED when the value is visibly
       a filtered / sliced rebuild, otherwise UNDECIDED
     - stores / deletes a watched key of the parent dictionary                      -> same
"""
import ast

from tfsa.loader import own_nodes, AnalysisError
from tfsa.pointsto import PointsTo, sorted_copy_info
from tfsa.report import norm
from tfsa.resolve import const_str
from . import common as C

ASSEMBLERS = ("__init__", "assemble", "_traverse")


def assembling_functions(ctx):
    """Functions that run as part of assembling the metafile: the constructors and `assemble` methods of the creator family
    and everything they (transitively) call.  What remains - sort_meta, write and whatever else touches the dictionary - is
    'after assembly'."""
    cached = getattr(ctx, "_assemblers", None)
    if cached is not None:
        return cached
    base = ctx.prog.cls("torrentfile.torrent:MetaFile")
    entries = []
    for c in ctx.prog.subclasses(base):
        for nm in ASSEMBLERS:
            m = c.methods.get(nm)
            if m is not None:
                entries.append(m)
    out = set(C.reach(ctx, entries, allow_approx=False)) | set(entries)
    ctx._assemblers = out
    return out


def _pt(ctx):
    pt = getattr(ctx, "_pt_cache", None)
    if pt is None:
        pt = PointsTo(ctx.prog, ctx.res, ctx.cg)
        ctx._pt_cache = pt
    return pt


def meta_roots(ctx, pt):
    init = ctx.prog.func("torrentfile.torrent:MetaFile.__init__")
    roots = set()
    for n in own_nodes(init.node):
        if isinstance(n, ast.Assign):
            for t in n.targets:
                if isinstance(t, ast.Attribute) and t.attr == "meta" and isinstance(t.value, ast.Name) and t.value.id == init.self_name:
                    roots |= pt.pts(t, init)
    if not roots:
        raise AnalysisError("anchor vanished: MetaFile.__init__ no longer binds self.meta to a dictionary")
    return roots


def filtered_rebuild(ctx, expr, fn):
    """Reason (str) if `expr` visibly yields a subset / rearrangement of its source, else None.

    Recognised: comprehension with an `if`, filter(), bounded slice, reversed(), sorted() of a list,
    a package function that rebuilds its argument in a loop and inserts conditionally."""
    e = expr
    if isinstance(e, ast.Call) and isinstance(e.func, ast.Name) and e.func.id in ("list", "dict", "tuple") and len(e.args) == 1:
        return filtered_rebuild(ctx, e.args[0], fn)
    if isinstance(e, (ast.ListComp, ast.DictComp, ast.GeneratorExp, ast.SetComp)):
        if any(g.ifs for g in e.generators):
            return "a comprehension with a filter (`if %s`)" % norm([g.ifs[0] for g in e.generators if g.ifs][0])
        return None
    if isinstance(e, ast.Subscript) and isinstance(e.slice, ast.Slice) and (e.slice.lower is not None or e.slice.upper is not None or e.slice.step is not None):
        return "a slice %s" % norm(e)
    if isinstance(e, ast.Call) and isinstance(e.func, ast.Name) and e.func.id in ("filter", "reversed"):
        return "%s(...)" % e.func.id
    if isinstance(e, ast.Call):
        for t in C.targets_of(ctx, fn, e):
            why = _function_filters(ctx, t, set())
            if why:
                return "%s, which %s" % (t.name, why)
    return None


def _function_filters(ctx, f, seen):
    """f builds a container from the items of a parameter and inserts them only conditionally."""
    if f in seen:
        return None
    seen = seen | {f}
    params = [p for p in f.params if p != f.self_name]
    g = C.cfg_of(f)
    for loop in [n for n in own_nodes(f.node) if isinstance(n, ast.For)]:
        src = loop.iter
        names = {x.id for x in ast.walk(src) if isinstance(x, ast.Name)}
        if not (names & set(params)):
            continue
        body_nodes = [n for st in loop.body for n in ast.walk(st)]
        for n in body_nodes:
            ins = None
            if isinstance(n, ast.Assign) and isinstance(n.targets[0], ast.Subscript) and isinstance(n.targets[0].value, ast.Name):
                ins = n
            if isinstance(n, ast.Expr) and isinstance(n.value, ast.Call) and isinstance(n.value.func, ast.Attribute) and n.value.func.attr in ("append", "add", "setdefault", "update"):
                ins = n
            if ins is None:
                continue
            sn = C.stmt_node(ctx, f, ins)
            ln = C.stmt_node(ctx, f, loop)
            if sn is None or ln is None:
                continue
            deps = [(b, lab) for b, lab in g.control_deps(sn, normal_only=True) if b.kind == "test" and b is not ln
                    and ctx.prog.enclosing_stmt(b.ast) is not loop and _inside(ctx, b.ast, loop)]
            # a test that merely selects how the value is computed is followed by a join before the insertion: then the
            # insertion is not control dependent on it.  What remains decides whether the item is kept.
            if deps:
                return "keeps an item only when `%s` is %s" % (norm(C.test_expr(deps[0][0])), deps[0][1])
    return None


def _inside(ctx, node, outer):
    p = node
    while p is not None:
        if p is outer:
            return True
        p = ctx.prog.parent.get(p)
    return False


def deep_resorts(ctx, path):
    """[(function, statement)] : stores, outside the assembling functions, that replace the location `path` (or a prefix
    of it) of the metafile dictionary by a *deep* sorted copy of itself - i.e. re-sort every level below it."""
    pt = _pt(ctx)
    roots = meta_roots(ctx, pt)
    kp = pt.key_paths(roots)
    by_path = {}
    for o, ps in kp.items():
        for p in ps:
            by_path.setdefault(p, set()).add(o)
    out = []
    for i in range(1, len(path) + 1):
        w = path[:i]
        parents = by_path.get(w[:-1], set())
        for ins, hit in pt.insertions_into(parents):
            if ins.fn is None or ins.fn in assembling_functions(ctx) or ins.how != "store" or ins.value is None:
                continue
            if (const_str(ins.key) if ins.key is not None else None) != w[-1]:
                continue
            info = sorted_copy_info(ctx.res, ins.value, ins.fn, ins.fn.module)
            if info is not None and info[1]:
                out.append((ins.fn, ins.node))
    return out


def _in_rekey_loop(ctx, node):
    from .c06 import inplace_rekey
    p = node
    while p is not None:
        if isinstance(p, ast.For) and inplace_rekey(p) is not None:
            return True
        p = ctx.prog.parent.get(p)
    return False


def integrity(ctx, rid, watched, what):
    """watched: set of key paths (tuples) such as ('info', 'files').  One obligation per statement that touches a watched
    location outside the assembling functions, plus one summary obligation per watched location."""
    pt = _pt(ctx)
    roots = meta_roots(ctx, pt)
    kp = pt.key_paths(roots)
    by_path = {}
    for o, ps in kp.items():
        for p in ps:
            by_path.setdefault(p, set()).add(o)
    n = 0
    touched = {w: 0 for w in watched}
    for w in sorted(watched):
        objs = by_path.get(w, set())
        parents = by_path.get(w[:-1], set())
        label = "/".join(w)
        # ---- the object itself (lists: removals, reorderings; dictionaries: deletions)
        for ins, hit in pt.list_edits_of(objs):
            n += 1
            touched[w] += 1
            ctx.violated(rid, ins.fn, "%s: `%s` %s the assembled %s: what is written no longer describes what was hashed" % (
                label, norm(ins.node), "removes entries from" if ins.how == "remove" else "reorders", what), ins.node)
        for ins, hit in pt.insertions_into(objs):
            if ins.fn is None or ins.fn in assembling_functions(ctx):
                continue
            if ins.how == "rekey" or _in_rekey_loop(ctx, ins.node):
                if ins.how in ("store", "rekey"):
                    n += 1
                    touched[w] += 1
                    ctx.holds(rid, ins.fn, "%s: re-keyed in place (every key is popped and re-inserted with its own value, in sorted order)" % label, ins.node)
                continue
            if any(o.kind in ("loaded", "loadedchild") for o in hit) and not any(o.kind not in ("loaded", "loadedchild") for o in hit):
                continue
            n += 1
            touched[w] += 1
            if ins.how == "del":
                ctx.violated(rid, ins.fn, "%s: `%s` deletes from the assembled %s outside the assembling functions" % (label, norm(ins.node), what), ins.node)
            else:
                ctx.undecided(rid, ins.fn, "%s: `%s` adds to the assembled %s outside the assembling functions" % (label, norm(ins.node), what), ins.node)
        # ---- the parent dictionary: stores / deletions of the watched key
        for ins, hit in pt.insertions_into(parents):
            if ins.fn is None or ins.fn in assembling_functions(ctx):
                continue
            k = const_str(ins.key) if ins.key is not None else None
            if k != w[-1]:
                if ins.how in ("update", "aug") or (ins.key is not None and k is None and ins.how in ("store", "del")):
                    pass        # dynamic keys are C06 / C07 territory
                continue
            n += 1
            touched[w] += 1
            if ins.how == "del":
                ctx.violated(rid, ins.fn, "%s: `%s` removes the assembled %s" % (label, norm(ins.node), what), ins.node)
                continue
            if ins.how != "store" or ins.value is None:
                ctx.undecided(rid, ins.fn, "%s: `%s` replaces the assembled %s" % (label, norm(ins.node), what), ins.node)
                continue
            info = sorted_copy_info(ctx.res, ins.value, ins.fn, ins.fn.module)
            if info is not None and pt.pts(info[0], ins.fn) & objs:
                ctx.holds(rid, ins.fn, "%s: re-stored as an order-only copy of itself" % label, ins.node)
                continue
            vo = pt.pts(ins.value, ins.fn)
            why = filtered_rebuild(ctx, ins.value, ins.fn)
            if why:
                ctx.violated(rid, ins.fn, "%s: after assembly the %s is replaced by %s: entries that were hashed can be missing from what is written" % (label, what, why), ins.node)
            elif isinstance(ins.value, (ast.Name, ast.Attribute)) and vo and vo <= objs:
                ctx.holds(rid, ins.fn, "%s: re-stored unchanged (alias)" % label, ins.node)
            else:
                ctx.undecided(rid, ins.fn, "%s: after assembly the %s is replaced by `%s`, which is not a recognised order-only copy" % (label, what, norm(ins.value)), ins.node)
        ctx.decide(rid, None, True, "%s: %d statement(s) outside %s touch it, each judged above" % (label, touched[w], "/".join(ASSEMBLERS)), "", "post-assembly :: " + label) \
            if objs or parents else ctx.undecided(rid, None, "%s: no object found at this location of the metafile dictionary" % label, "post-assembly :: " + label)
    return n
