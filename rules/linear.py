"""Integer-linear normal forms over uninterpreted atoms (DESIGN 3.8)."""
import ast

from tfsa.report import norm


class Lin:
    """sum(coeff * atom) + c ; atoms are 1-tuples of canonical strings."""

    def __init__(self, terms=None, c=0):
        self.terms = {k: v for k, v in (terms or {}).items() if v != 0}
        self.c = c

    @staticmethod
    def const(c):
        return Lin({}, c)

    @staticmethod
    def atom(name):
        return Lin({(name,): 1}, 0)

    def is_const(self):
        return not self.terms

    def add(self, o):
        t = dict(self.terms)
        for k, v in o.terms.items():
            t[k] = t.get(k, 0) + v
        return Lin(t, self.c + o.c)

    def scale(self, k):
        return Lin({a: v * k for a, v in self.terms.items()}, self.c * k)

    def sub(self, o):
        return self.add(o.scale(-1))

    def __eq__(self, o):
        return isinstance(o, Lin) and self.terms == o.terms and self.c == o.c

    def __hash__(self):
        return hash((tuple(sorted(self.terms.items())), self.c))

    def key(self):
        return (tuple(sorted(self.terms.items())), self.c)

    def __repr__(self):
        parts = []
        for k, v in sorted(self.terms.items()):
            parts.append(("%d*%s" % (v, k[0])) if v != 1 else k[0])
        if self.c or not parts:
            parts.append(str(self.c))
        return " + ".join(parts).replace("+ -", "- ")


def module_consts(mod):
    out = {}
    for k, vals in mod.assigns.items():
        if len(vals) == 1:
            v = fold_int(vals[0], out)
            if v is not None:
                out[k] = v
    return out


def fold_int(node, consts=None):
    try:
        if isinstance(node, ast.Constant) and isinstance(node.value, int) and not isinstance(node.value, bool):
            return node.value
        if isinstance(node, ast.Name) and consts and node.id in consts:
            return consts[node.id]
        if isinstance(node, ast.BinOp):
            l, r = fold_int(node.left, consts), fold_int(node.right, consts)
            if l is None or r is None:
                return None
            if isinstance(node.op, ast.Pow) and 0 <= r < 100:
                return l ** r
            if isinstance(node.op, ast.LShift) and 0 <= r < 100:
                return l << r
            if isinstance(node.op, ast.Mult):
                return l * r
            if isinstance(node.op, ast.Add):
                return l + r
            if isinstance(node.op, ast.Sub):
                return l - r
            if isinstance(node.op, ast.FloorDiv) and r:
                return l // r
        if isinstance(node, ast.UnaryOp) and isinstance(node.op, ast.USub):
            v = fold_int(node.operand, consts)
            return -v if v is not None else None
    except Exception:
        return None
    return None


def lin_of(e, consts=None, expand=None, atom_of=None, depth=0):
    """Linear normal form of an integer expression; None if outside the term language.

    expand(expr) may replace a Name by its definition; atom_of(expr) may give a canonical atom name for a sub-expression.
    """
    if depth > 12 or e is None:
        return None
    v = fold_int(e, consts)
    if v is not None:
        return Lin.const(v)
    if atom_of is not None:
        a = atom_of(e)
        if a is not None:
            return a if isinstance(a, Lin) else Lin.atom(a)
    if isinstance(e, (ast.Name, ast.Attribute)) and expand is not None:
        x = expand(e)
        if x is not e:
            return lin_of(x, consts, expand, atom_of, depth + 1)
    if isinstance(e, ast.BinOp):
        l = lin_of(e.left, consts, expand, atom_of, depth + 1)
        r = lin_of(e.right, consts, expand, atom_of, depth + 1)
        if isinstance(e.op, ast.Add) and l is not None and r is not None:
            return l.add(r)
        if isinstance(e.op, ast.Sub) and l is not None and r is not None:
            return l.sub(r)
        if isinstance(e.op, ast.Mult) and l is not None and r is not None:
            if l.is_const():
                return r.scale(l.c)
            if r.is_const():
                return l.scale(r.c)
            return Lin.atom("(%s)*(%s)" % tuple(sorted([repr(l), repr(r)])))
        if isinstance(e.op, ast.FloorDiv) and l is not None and r is not None:
            if r.is_const() and l.is_const() and r.c:
                return Lin.const(l.c // r.c)
            return Lin.atom("(%s)//(%s)" % (repr(l), repr(r)))
        if isinstance(e.op, ast.Mod) and l is not None and r is not None:
            return Lin.atom("(%s)%%(%s)" % (repr(l), repr(r)))
        if isinstance(e.op, ast.LShift) and l is not None and r is not None and r.is_const() and 0 <= r.c < 64:
            return l.scale(1 << r.c)
        return None
    if isinstance(e, ast.UnaryOp) and isinstance(e.op, ast.USub):
        v = lin_of(e.operand, consts, expand, atom_of, depth + 1)
        return v.scale(-1) if v is not None else None
    if isinstance(e, ast.Call) and isinstance(e.func, ast.Name) and e.func.id == "len" and len(e.args) == 1:
        return Lin.atom("len(%s)" % norm(e.args[0]))
    if isinstance(e, ast.Call) and isinstance(e.func, ast.Name) and e.args:
        inner = [lin_of(a, consts, expand, atom_of, depth + 1) for a in e.args]
        if all(i is not None for i in inner):
            return Lin.atom("%s(%s)" % (e.func.id, ", ".join(repr(i) for i in inner)))
    if isinstance(e, (ast.Name, ast.Attribute)):
        return Lin.atom(norm(e))
    if isinstance(e, ast.Subscript):
        return Lin.atom(norm(e))
    return None
