"""Facts about the v2 / hybrid creators' tree traversal (C02.1-3, C03.1-2, C10.3)."""
import ast

from tfsa.loader import own_nodes, AnalysisError
from tfsa.report import norm
from tfsa.resolve import const_str
from . import common as C
from .hashfacts import Fact, und, UND

CREATORS_V2 = {
    "torrentfile.torrent:TorrentFileV2": ("HasherV2", False),
    "torrentfile.torrent:TorrentFileHybrid": ("HasherHybrid", True),
    "torrentfile.torrent:TorrentAssembler": ("FileHasher", "flag"),
}
HASHERS = {"HasherV2", "HasherHybrid", "FileHasher"}


def traverse_facts(ctx, cq):
    cls = ctx.prog.cls(cq)
    fn = cls.methods.get("_traverse") or ctx.prog.find_method(cls, "_traverse")
    if fn is None:
        raise AnalysisError("anchor vanished: %s._traverse" % cq)
    g = C.cfg_of(fn)
    p = [x for x in fn.params if x != fn.self_name][0]
    F = {}
    # ---- file branch
    fb = None
    for st in fn.node.body:
        if isinstance(st, ast.If) and any(isinstance(a, ast.Call) and (C.is_ext_call(ctx, a, fn, ("os.path.isfile",)) or (isinstance(a.func, ast.Attribute) and a.func.attr == "is_file"))
                                          and a.args and norm(a.args[0]) == p for a in C.atoms_of(st.test)):
            fb = st
    if fb is None:
        raise AnalysisError("%s._traverse: file branch `if os.path.isfile(path)` not found" % cls.name)
    fbn = fb
    if isinstance(fb.test, ast.UnaryOp) and isinstance(fb.test.op, ast.Not) and not fb.orelse and fb.body and isinstance(fb.body[-1], ast.Return):
        # `if not isfile(path): <directory part>; return tree` followed by the file part: the same two arms, the other way round
        fb = _Arm(fbn, fn.node.body[fn.node.body.index(fbn) + 1:])
    elif isinstance(fb.test, ast.UnaryOp) and isinstance(fb.test.op, ast.Not) and fb.orelse:
        fb = _Arm(fbn, fb.orelse)
    body_nodes = [n for st in fb.body for n in ast.walk(st)]
    # size
    sz = [n for n in body_nodes if isinstance(n, ast.Assign) and isinstance(n.value, ast.Call) and C.is_ext_call(ctx, n.value, fn, ("os.path.getsize",))]
    if len(sz) == 1 and norm(sz[0].value.args[0]) == p and isinstance(sz[0].targets[0], ast.Name):
        sv = sz[0].targets[0].id
        F["size"] = Fact("getsize(path)", sz[0], fn)
    else:
        F["size"] = Fact((norm(sz[0].value).replace("os.path.", "") if len(sz) == 1 else "?%d getsize calls" % len(sz)), sz[0] if sz else fbn, fn)
        sv = sz[0].targets[0].id if sz and isinstance(sz[0].targets[0], ast.Name) else "?"
    size_known = sv != "?" and len(sz) == 1
    # hasher construction
    hc = [n for n in body_nodes if isinstance(n, ast.Call) and any(k[0] == "class" and k[1].name in HASHERS for k in ctx.res.kinds(n.func, fn))]
    hv = None
    if len(hc) == 1:
        par = ctx.prog.parent.get(hc[0])
        hv = par.targets[0].id if isinstance(par, ast.Assign) and isinstance(par.targets[0], ast.Name) else None
        cname = [k[1].name for k in ctx.res.kinds(hc[0].func, fn) if k[0] == "class"][0]
        a0 = norm(hc[0].args[0]) if hc[0].args else "?"
        a1 = norm(hc[0].args[1]) if len(hc[0].args) > 1 else "?"
        F["hasher"] = Fact("%s(path, self.piece_length)" % cname if (a0, a1) == (p, "self.piece_length") else "%s(%s, %s)" % (cname, a0, a1), hc[0], fn)
        # the options of the per-file hasher (padding switch among them) are the creator's, the same for every file of the
        # tree: a mapping chosen per file - a local rebound under a test, or explicit pad= / align= keywords that are not
        # constants - makes padding depend on which file it is, and whether every file but the last of the stream is still
        # padded is then a question about orders of traversal that the fact table does not answer
        per_file = None
        for kw in hc[0].keywords:
            if kw.arg is None and isinstance(kw.value, ast.Name):
                binds_ = [n for n in body_nodes if isinstance(n, (ast.Assign, ast.AugAssign)) and any(isinstance(t, ast.Name) and t.id == kw.value.id for t in (n.targets if isinstance(n, ast.Assign) else [n.target]))]
                if len(binds_) > 1:
                    per_file = "**%s, bound %d times on the way to the construction" % (kw.value.id, len(binds_))
            elif kw.arg in ("pad", "align") and not isinstance(kw.value, ast.Constant) and not (isinstance(kw.value, ast.Attribute) and norm(kw.value).startswith(fn.self_name + ".")):
                per_file = "%s=%s" % (kw.arg, norm(kw.value)[:40])
        if per_file is not None:
            F["hasher"] = und("the options of the per-file hasher are chosen file by file (%s); which files end up padded was not followed" % per_file, hc[0], fn)
    else:
        F["hasher"] = und("expected exactly one hasher construction, found %d" % len(hc), fbn, fn)
    # empty file: early return of a length-only leaf that dominates the hasher
    leafs = [n for n in body_nodes if isinstance(n, ast.Return) and isinstance(n.value, ast.Dict) and len(n.value.keys) == 1 and const_str(n.value.keys[0]) == ""
             and isinstance(n.value.values[0], ast.Dict)]
    empty = [r for r in leafs if {const_str(k) for k in r.value.values[0].keys} == {"length"}]
    full = [r for r in leafs if {const_str(k) for k in r.value.values[0].keys} == {"length", "pieces root"}]
    ef = "no length-only leaf for empty files"
    if len(empty) == 1:
        rn = C.stmt_node(ctx, fn, empty[0])
        deps = g.direct_control_deps(rn)
        cond = None
        for b, lab in deps:
            t = C.test_expr(b)
            if isinstance(t, ast.Compare) and len(t.ops) == 1 and norm(t.left) == sv and isinstance(t.ops[0], ast.Eq) and norm(t.comparators[0]) == "0" and lab == "true":
                cond = "size == 0"
            elif isinstance(t, ast.UnaryOp) and isinstance(t.op, ast.Not) and norm(t.operand) == sv and lab == "true":
                cond = "size == 0"
            elif isinstance(t, ast.Compare) and norm(t.left) == sv:
                cond = "size %s %s" % (type(t.ops[0]).__name__, norm(t.comparators[0]))
        before = hc and all(C.stmt_node(ctx, fn, h) not in g.reachable(C.succ_by_label(b, lab)[0]) or True for h in hc for b, lab in deps)
        dom = False
        if hc:
            hn = C.stmt_node(ctx, fn, hc[0])
            tests = [b for b, lab in deps]
            dom = bool(tests) and all(g.dominates(b, hn) for b in tests) and hn not in g.reachable(rn)
        ef = "length-only leaf returned iff %s, before any hashing" % cond if cond and dom else "length-only leaf under %s%s" % (cond, "" if dom else " (not before the hasher)")
        F["empty.leaf"] = Fact(ef, empty[0], fn)
        lv = norm(empty[0].value.values[0].values[0])
        F["empty.length"] = Fact("length = size" if lv == sv else "length = " + lv, empty[0], fn)
    elif not full:
        # neither kind of leaf is written in this function (a helper builds them): not a finding
        F["empty.leaf"] = und("the leaves are not built in this function", fbn, fn)
    elif empty:
        F["empty.leaf"] = und("%d length-only leaf literals in this function: which of them answers for an empty file is not decided" % len(empty), empty[0], fn)
    else:
        F["empty.leaf"] = Fact(ef, fbn, fn)
    ab = _abbreviations(fn)
    if len(full) == 1:
        d = {const_str(k): ab.get(norm(v), norm(v)) for k, v in zip(full[0].value.values[0].keys, full[0].value.values[0].values)}
        if _foreign_object(d.get("pieces root"), fn, hv):
            F["leaf"] = und("the pieces root is read from `%s`, an object other than the per-file hasher, which the extractor does not follow" % d.get("pieces root"), full[0], fn)
        elif any(_bare_local(d.get(k), fn, {sv}) for k in ("length", "pieces root")):
            F["leaf"] = und("the leaf is built from a local (`%s`) whose definition the extractor does not follow" % ", ".join(
                d[k] for k in ("length", "pieces root") if _bare_local(d.get(k), fn, {sv})), full[0], fn)
        else:
            F["leaf"] = Fact("{length: size, pieces root: hasher.root}" if d.get("length") == sv and d.get("pieces root") == "%s.root" % hv else "{length: %s, pieces root: %s}" % (d.get("length"), d.get("pieces root")), full[0], fn)
    else:
        F["leaf"] = und("leaf literal with length and pieces root not found", fbn, fn)
    # piece-layer membership
    pls = [n for n in body_nodes if isinstance(n, ast.Assign) and isinstance(n.targets[0], ast.Subscript) and "piece_layers" in norm(n.targets[0].value)]
    if len(pls) == 1:
        st = pls[0]
        sn = C.stmt_node(ctx, fn, st)
        conds = []
        for b, lab in g.direct_control_deps(sn):
            t = C.test_expr(b)
            if isinstance(t, ast.Compare) and len(t.ops) == 1:
                l, r, op = norm(t.left), norm(t.comparators[0]), type(t.ops[0]).__name__
                if r == sv:
                    l, r = r, l
                    op = {"Lt": "Gt", "Gt": "Lt", "LtE": "GtE", "GtE": "LtE"}.get(op, op)
                if lab == "false":
                    op = {"Gt": "LtE", "GtE": "Lt", "Lt": "GtE", "LtE": "Gt"}.get(op, op)
                conds.append("%s %s %s" % ("size" if l == sv else l, op, r))
            elif t is not None:
                conds.append(("" if lab == "true" else "not ") + norm(t))
        F["layer.member"] = Fact(" & ".join(sorted(conds)) or "unconditional", st, fn)
        key = ab.get(norm(st.targets[0].slice), norm(st.targets[0].slice))
        F["layer.key"] = Fact("hasher.root" if key == "%s.root" % hv else key, st, fn) if not (_bare_local(key, fn, {sv}) or _foreign_object(key, fn, hv)) else \
            und("the key is a local (`%s`) whose definition the extractor does not follow" % key, st, fn)
        val = ab.get(norm(st.value), norm(st.value))
        if val == "%s.piece_layer" % hv:
            F["layer.value"] = Fact("hasher.piece_layer", st, fn)
        elif isinstance(st.value, ast.Name):
            # concatenation, in order, of exactly the layer hashes yielded: every definition of the variable is either
            # `<empty bytes>.join(hasher)` or an empty value followed, in the same block, by one loop over the hasher that
            # extends it on every iteration
            ok = _concat_of_yields(ctx, fn, g, body_nodes, st.value.id, hv, (0, None))
            F["layer.value"] = Fact("concatenation of every layer hash the hasher yields, in order" if ok is True else ("concatenation of " + ok) if ok else "?" + val, st, fn)
        else:
            F["layer.value"] = Fact("?" + val, st, fn)
    else:
        F["layer.member"] = und("piece-layers store not found", fbn, fn)
    # ---- directory branch (in the traversal itself, or in a helper it hands the path to as its last statement)
    dirfacts, holder = _dir_part(ctx, fn, fn, p, set(map(id, body_nodes)), frozenset())
    F.update(dirfacts)
    # ---- how the traversal is entered: once, on the content root, its result being the file tree
    entries = []
    for f in ctx.prog.functions.values():
        if f is fn or f is holder:
            continue
        for n in own_nodes(f.node):
            if isinstance(n, ast.Call) and any(t is fn for t in C.targets_of(ctx, f, n)):
                entries.append((f, n))
    if not entries:
        F["entry.call"] = und("no call of the traversal found outside itself", fn.node, fn)
    else:
        bad = []
        flat = None
        for f, call in entries:
            st = ctx.prog.enclosing_stmt(call)
            arg = norm(call.args[0]) if len(call.args) == 1 and not call.keywords else "?"
            stored = isinstance(st, ast.Assign) and len(st.targets) == 1 and isinstance(st.targets[0], ast.Subscript) and const_str(st.targets[0].slice) == "file tree" \
                and (st.value is call or (isinstance(st.value, ast.Dict) and len(st.value.values) == 1 and st.value.values[0] is call))
            if not stored and isinstance(st, ast.Assign) and len(st.targets) == 1 and isinstance(st.targets[0], ast.Name) and st.value is call:
                # tree = self._traverse(root) ... info['file tree'] = tree / {name: tree}
                v = st.targets[0].id
                uses = [n for n in own_nodes(f.node) if isinstance(n, ast.Name) and n.id == v and isinstance(n.ctx, ast.Load)]
                good = 0
                for u in uses:
                    us = ctx.prog.enclosing_stmt(u)
                    if isinstance(us, ast.Assign) and len(us.targets) == 1 and isinstance(us.targets[0], ast.Subscript) and const_str(us.targets[0].slice) == "file tree" \
                            and (us.value is u or (isinstance(us.value, ast.Dict) and len(us.value.values) == 1 and us.value.values[0] is u)):
                        good += 1
                stored = bool(uses) and good == len(uses)
            if arg != "%s.path" % f.self_name:
                loop = _enclosing_for(ctx, f, call)
                if loop is not None and isinstance(loop.target, ast.Name) and arg == loop.target.id and _is_flat_sorted_listing(ctx, f, loop.iter):
                    flat = (f, call, loop)
                    continue
                bad.append("%s calls it on `%s`, not on the content root" % (f.name, arg))
            elif C.in_loop(ctx, f, call):
                bad.append("%s calls it inside a loop" % f.name)
            elif not stored:
                bad.append("%s does not store its result as info['file tree'] (`%s`)" % (f.name, norm(st)[:80]))
        if flat is not None and not bad:
            # the order of the v1 entries / pieces is then the order of that list, not the level-by-level order of the tree
            F["entry.call"] = Fact(FLAT_ENTRY, flat[1], flat[0])
        elif bad or flat is not None:
            # an unrecognised way of driving the traversal: nothing can be said about the order it produces
            F["entry.call"] = Fact("?" + "; ".join(bad), entries[0][1], entries[0][0])
        else:
            F["entry.call"] = Fact("entered on the content root, outside any loop, result stored as info['file tree']", entries[0][1], entries[0][0])
    F["single.key"] = single_file_key(ctx, cls, fn)
    if not size_known:
        # the file's size is not taken by one `size = os.path.getsize(path)` of this function (it comes out of a record, a
        # helper): which variable holds it is not known, so nothing can be stated about the facts that speak of it
        for k in ("empty.leaf", "empty.length", "leaf", "layer.member"):
            if k in F and F[k].value != UND:
                F[k] = und("the variable holding the file's size was not identified (no single `size = os.path.getsize(path)` in this function)", F[k].node, fn)
    if hv is None:
        # the per-file hasher is obtained in a way this extractor does not follow (a factory attribute, a helper): what the
        # leaf, the layer and the empty-file arm say about *its* attributes cannot be stated
        for k in ("leaf", "layer.key", "layer.value", "empty.leaf"):
            if k in F and F[k].value != UND:
                F[k] = und("the per-file hasher is not constructed in this function: its attributes cannot be identified", F[k].node, fn)
    return F, fn, fb, sv, hv


class _Arm:
    """The statements executed for a regular file, and the `if` that selects them (when they are not simply its body)."""

    def __init__(self, node, body):
        self.node, self.body = node, body


FLAT_ENTRY = "called once per file of a flat listing sorted by full path"


def _concat_of_yields(ctx, fn, g, body_nodes, v, hv, positions):
    """True / False (not understood) / a sentence saying what is concatenated instead.
    Local v holds the concatenation, in order, of what the per-file hasher yields - the whole element (position None) or
    the given position of a yielded pair: every definition of v is `<empty bytes>.join(hasher)` (whole elements only), or an
    empty value; every growth of v is `v.extend(x)` on every iteration of a loop over the hasher, x being the element (or that
    position of it); and on no path through the function does the hasher feed two such loops."""
    EMPTY = ("bytearray()", "b''", "bytes()")
    ext = [n for n in body_nodes if isinstance(n, ast.Call) and isinstance(n.func, ast.Attribute) and n.func.attr == "extend" and norm(n.func.value) == v and len(n.args) == 1]
    inits = []          # (statement, value expression)
    for n in body_nodes:
        if isinstance(n, ast.Assign) and len(n.targets) == 1:
            t = n.targets[0]
            if isinstance(t, ast.Name) and t.id == v:
                inits.append((n, n.value))
            elif isinstance(t, (ast.Tuple, ast.List)) and isinstance(n.value, (ast.Tuple, ast.List)) and len(t.elts) == len(n.value.elts):
                for te, ve in zip(t.elts, n.value.elts):
                    if isinstance(te, ast.Name) and te.id == v:
                        inits.append((n, ve))
    stores = [n for n in body_nodes if isinstance(n, ast.Name) and n.id == v and isinstance(n.ctx, (ast.Store, ast.Del))]
    other = [n for n in body_nodes if isinstance(n, ast.AugAssign) and norm(n.target) == v]
    if not inits or other or len(stores) != len(inits):
        return False
    for i_, iv in inits:
        if isinstance(iv, ast.Call) and isinstance(iv.func, ast.Name) and iv.func.id in ("bytearray", "bytes") and len(iv.args) == 1 and not iv.keywords:
            iv = iv.args[0]
        if isinstance(iv, ast.Call) and isinstance(iv.func, ast.Attribute) and iv.func.attr == "join" and norm(iv.func.value) in EMPTY and len(iv.args) == 1 and norm(iv.args[0]) == hv:
            if None not in positions:
                return False
            continue
        if norm(iv) not in EMPTY:
            return False
    loops = []
    for e in ext:
        l = None
        n = e
        while n is not None and n is not fn.node:
            n = ctx.prog.parent.get(n)
            if isinstance(n, ast.For):
                l = n
                break
        if l is None or norm(l.iter) != hv:
            return False
        # what is appended: the loop element, or the wanted position of it
        arg = e.args[0]
        good = False
        found_pos = None
        if isinstance(arg, ast.Name):
            if isinstance(l.target, ast.Name) and l.target.id == arg.id and None in positions:
                good = True
            if isinstance(l.target, (ast.Tuple, ast.List)):
                idx = [i for i, t in enumerate(l.target.elts) if isinstance(t, ast.Name) and t.id == arg.id]
                good = good or (len(idx) == 1 and idx[0] in positions)
                if len(idx) == 1 and not good:
                    found_pos = idx[0]
            if not good and isinstance(l.target, ast.Name):
                # layer_hash, piece = result  (under the mode test), result being the loop element
                for what, payload in ctx.res.bindings(fn).get(arg.id, []):
                    if what == "unpack" and isinstance(payload[0], ast.Name) and payload[0].id == l.target.id and payload[1] in positions:
                        good = True
                    elif what == "value" and isinstance(payload, ast.Name) and payload.id == l.target.id and None in positions:
                        good = True
                    elif what not in ("unpack", "value"):
                        good = False
                        break
        if not good:
            if found_pos is not None:
                return "position %s of what the hasher yields, not %s" % (found_pos, " / ".join("the element itself" if p_ is None else "position %d" % p_ for p_ in positions))
            return False
        gl = g.of[l]
        bs = C.succ_by_label(gl, "iter")[0]
        mine = [x for x in ext if any(x is y for y in ast.walk(l))]
        if len(mine) == 1 and not g.must_pass(bs, gl, {C.stmt_node(ctx, fn, e)}) and not any(isinstance(x, (ast.Break, ast.Return, ast.Continue, ast.Try)) for st in l.body for x in ast.walk(st)):
            tests = [norm(C.test_expr(b_)) for b_, lab in g.direct_control_deps(C.stmt_node(ctx, fn, e)) if C.test_expr(b_) is not None and b_.ast is not None
                     and any(b_.ast is y for y in ast.walk(l))]
            if tests:
                return "only the elements for which `%s` holds, not every element the hasher yields" % " and ".join(tests)
        if len(mine) != 1 or not g.must_pass(bs, gl, {C.stmt_node(ctx, fn, e)}) or any(isinstance(x, (ast.Break, ast.Return)) for st in l.body for x in ast.walk(st)):
            return False
        loops.append(l)
    # two loops over the one hasher must exclude each other (the arms of a mode test)
    for a_ in loops:
        for b_ in loops:
            if a_ is not b_ and g.of[b_] in g.reachable(g.of[a_]):
                return False
    return bool(loops) or all(norm(iv) not in EMPTY for _, iv in inits)


def _abbreviations(fn):
    """Locals of fn that are defined exactly once, by `name = <attribute chain on a name>` (root = hasher.root): name -> text."""
    stores = {}
    for n in own_nodes(fn.node):
        if isinstance(n, ast.Name) and isinstance(n.ctx, (ast.Store, ast.Del)):
            stores[n.id] = stores.get(n.id, 0) + 1
    out = {}
    for n in own_nodes(fn.node):
        if isinstance(n, ast.Assign) and len(n.targets) == 1 and isinstance(n.targets[0], ast.Name) and stores.get(n.targets[0].id) == 1 and isinstance(n.value, ast.Attribute):
            b = n.value
            while isinstance(b, ast.Attribute):
                b = b.value
            if isinstance(b, ast.Name) and b.id not in fn.params[1:]:
                out[n.targets[0].id] = norm(n.value)
    return out


def _foreign_object(txt, fn, hv):
    """txt reads an attribute of a local object other than the per-file hasher (a record built from it, say): the name of
    that object, else None.  What such an object holds is not followed by this extractor."""
    import re
    m = re.match(r"([A-Za-z_][A-Za-z_0-9]*)\.[A-Za-z_]", txt or "")
    if not m or m.group(1) in (hv, fn.self_name) or m.group(1) in fn.params:
        return None
    stored = {n.id for n in own_nodes(fn.node) if isinstance(n, ast.Name) and isinstance(n.ctx, ast.Store)}
    return m.group(1) if m.group(1) in stored else None


def _bare_local(txt, fn, known):
    """txt is a plain local name (not a parameter, not one of the names the extractor tracks): its value is not followed."""
    return txt is not None and txt.isidentifier() and txt not in known and txt not in fn.params


def _dir_part(ctx, top, H, p, skip, rec_params, depth=0):
    """The directory arm of the traversal `top`, read in function H whose parameter p holds the path: a statement loop
    `for name in sorted(os.listdir(p)): tree[name] = top(join(p, name))` followed by `return tree`, the same as a returned
    dictionary comprehension, or - once - a helper that H calls with the path as its last statement.
    rec_params: parameters of H that hold the bound traversal (`subtree(self._traverse, path)`).
    Returns (facts, function that holds the loop)."""
    F = {}

    def is_rec(v):
        if not isinstance(v, ast.Call):
            return False
        if isinstance(v.func, ast.Name) and v.func.id in rec_params:
            return True
        return any(t is top for t in C.targets_of(ctx, H, v))

    def rec_on_child(v, name):
        return is_rec(v) and len(v.args) == 1 and not v.keywords and isinstance(v.args[0], ast.Call) and C.is_ext_call(ctx, v.args[0], H, ("os.path.join",)) \
            and [norm(a) for a in v.args[0].args] == [p, name]

    def order(it):
        srt = isinstance(it, ast.Call) and C.is_ext_call(ctx, it, H, ("builtins.sorted",)) and not it.keywords and len(it.args) == 1 \
            and isinstance(it.args[0], ast.Call) and C.is_ext_call(ctx, it.args[0], H, ("os.listdir",)) and it.args[0].args and norm(it.args[0].args[0]) == p
        if not srt:
            # the listing may be walked by a helper generator that yields the entries of sorted(os.listdir(path))
            sl = C.sorted_listing_generator(ctx, H, it)
            srt = sl is not None and norm(sl[0]) == p
        if not srt and isinstance(it, ast.Call):
            # a plain helper whose one return is sorted(os.listdir(<its parameter>)...) called with the path
            tg_ = [t for t in C.targets_of(ctx, H, it) if not t.is_generator]
            if len(tg_) == 1 and len(C.targets_of(ctx, H, it)) == 1:
                T_ = tg_[0]
                rets_ = [r for r in own_nodes(T_.node) if isinstance(r, ast.Return) and r.value is not None]
                bound_ = ctx.res.bind_args(T_, it, T_.cls is not None and not T_.is_static)
                if len(rets_) == 1 and isinstance(rets_[0].value, ast.Call) and C.is_ext_call(ctx, rets_[0].value, T_, ("builtins.sorted",)) and len(rets_[0].value.args) == 1:
                    inner_ = rets_[0].value.args[0]
                    if isinstance(inner_, ast.Call) and C.is_ext_call(ctx, inner_, T_, ("os.listdir",)) and inner_.args and isinstance(inner_.args[0], ast.Name) \
                            and isinstance(bound_.get(inner_.args[0].id), ast.AST) and norm(bound_[inner_.args[0].id]) == p \
                            and not any(isinstance(x, ast.Name) and isinstance(x.ctx, ast.Store) and x.id == inner_.args[0].id for x in own_nodes(T_.node)):
                        if not rets_[0].value.keywords:
                            srt = True
                        else:
                            return Fact("sorted(os.listdir(path), %s) in %s" % (", ".join("%s=%s" % (k.arg, norm(k.value)[:40]) for k in rets_[0].value.keywords), T_.name), it, H)
        if srt:
            return Fact("sorted(os.listdir(path))", it, H)
        lists = [x for x in ast.walk(it) if isinstance(x, ast.Call) and (C.is_ext_call(ctx, x, H, ("os.listdir", "os.scandir", "os.walk", "glob.glob", "glob.iglob"))
                                                                         or (isinstance(x.func, ast.Attribute) and x.func.attr in ("iterdir", "glob", "rglob")))]
        if not lists:
            # a local, a helper's result: where the names come from was not followed, so nothing is stated about their order
            return und("the directory loop iterates over `%s`, which is not a listing expression: where the names come from was not followed" % norm(it)[:60], it, H)
        return Fact(norm(it), it, H)
    work = C.worklist_loops(H)
    if work and not any(is_rec(x) for x in own_nodes(H.node)):
        F["dir.loop"] = und("the directories are walked with an explicit stack (`%s`) instead of a call of the traversal on every entry: "
                            "what such a walk visits, and in which order, is not read" % work[0][1], work[0][0], H)
        return F, H
    loops = [n for n in own_nodes(H.node) if isinstance(n, ast.For) and id(n) not in skip]
    # the directory loop is the one that descends: other loops of the function (over hashes, over records) are not it
    descending = [l for l in loops if any(is_rec(x) for st in l.body for x in ast.walk(st))]
    if descending or not any(is_rec(x) for x in own_nodes(H.node)):
        loops = descending if descending else loops
    comps = [n for n in H.node.body if isinstance(n, ast.Return) and isinstance(n.value, ast.DictComp)]
    if len(loops) == 1 and not comps:
        l = loops[0]
        F["dir.order"] = order(l.iter)
        filt = [x for st in l.body for x in ast.walk(st) if isinstance(x, (ast.If, ast.Continue, ast.Break, ast.IfExp))]
        stores = [st for st in l.body if isinstance(st, ast.Assign) and isinstance(st.targets[0], ast.Subscript)]
        desc = "?"
        if len(stores) == 1 and isinstance(l.target, ast.Name):
            st = stores[0]
            k = norm(st.targets[0].slice)
            v = st.value
            desc = "tree[name] = traverse(join(path, name)) for every name" if (k == l.target.id and rec_on_child(v, l.target.id) and not filt) else \
                "tree[%s] = %s%s" % (k, norm(v), " with a filter" if filt else "")
        F["dir.loop"] = Fact(desc, l, H)
        ret = [n for n in H.node.body if isinstance(n, ast.Return)]
        F["dir.return"] = Fact("returns the tree" if ret and stores and norm(ret[-1].value) == norm(stores[0].targets[0].value) else "?", ret[-1] if ret else l, H)
        return F, H
    if not loops and len(comps) == 1 and comps[0] is H.node.body[-1]:
        dc = comps[0].value
        gens = dc.generators
        if len(gens) == 1 and isinstance(gens[0].target, ast.Name) and not gens[0].is_async:
            name = gens[0].target.id
            F["dir.order"] = order(gens[0].iter)
            plain = norm(dc.key) == name and rec_on_child(dc.value, name) and not gens[0].ifs and not any(isinstance(x, ast.IfExp) for x in ast.walk(dc.value))
            F["dir.loop"] = Fact("tree[name] = traverse(join(path, name)) for every name" if plain else
                                 "tree[%s] = %s%s" % (norm(dc.key), norm(dc.value), " with a filter" if gens[0].ifs else ""), dc, H)
            F["dir.return"] = Fact("returns the tree", comps[0], H)
            return F, H
        F["dir.loop"] = und("the returned dictionary comprehension has a shape the extractor does not read", dc, H)
        return F, H
    tail = H.node.body[-1] if H.node.body else None
    if not loops and not comps and depth == 0 and isinstance(tail, ast.Return) and isinstance(tail.value, ast.Call):
        tg = [t for t in C.targets_of(ctx, H, tail.value) if t is not top]
        if len(tg) == 1 and not tg[0].is_generator:
            T = tg[0]
            bound = ctx.res.bind_args(T, tail.value, T.cls is not None and not T.is_static)
            paths = [k for k, v in bound.items() if isinstance(v, ast.Name) and v.id == p]
            recs = frozenset(k for k, v in bound.items() if isinstance(v, ast.Attribute) and isinstance(v.value, ast.Name) and v.value.id == H.self_name
                             and any(kd[0] in ("func", "method", "bound") and kd[1] is top for kd in ctx.res.kinds(v, H)))
            reassigned = any(isinstance(x, ast.Name) and isinstance(x.ctx, ast.Store) and x.id in set(paths) | set(recs) for x in own_nodes(T.node))
            if len(paths) == 1 and not reassigned and len(bound) == len(paths) + len(recs):
                return _dir_part(ctx, top, T, paths[0], set(), recs, depth + 1)
    F["dir.loop"] = und("directory loop not found", H.node, H)
    return F, H


def _enclosing_for(ctx, f, node):
    p = ctx.prog.parent.get(node)
    while p is not None and p is not f.node:
        if isinstance(p, ast.For):
            return p
        p = ctx.prog.parent.get(p)
    return None


def _is_flat_sorted_listing(ctx, f, it):
    """The iterable is (an attribute / local holding) a list that was produced by sorted() over whole paths."""
    from tfsa.flow import Flow, walk_terms
    fl = Flow(ctx.prog, ctx.res)
    t = fl.term(it, f)
    return any(x[0] == "ext" and x[1] == "builtins.sorted" for x in walk_terms(t)) and not any(x[0] == "ext" and x[1] == "os.listdir" and False for x in walk_terms(t))


class _DropAbspath(ast.NodeTransformer):
    """basename(abspath(p)) and basename(p) name the same final component for a path that names an existing file."""

    def visit_Call(self, n):
        self.generic_visit(n)
        if norm(n.func) in ("os.path.abspath", "os.path.normpath") and len(n.args) == 1:
            return n.args[0]
        return n


def _name_nf(expr):
    import copy
    return norm(_DropAbspath().visit(copy.deepcopy(expr)))


def single_file_key(ctx, cls, trav):
    """The key under which a single-file payload's leaf is stored in the file tree must be the recorded name."""
    asm = cls.methods.get("assemble")
    if asm is None:
        return und("assemble not found", None, trav)
    keys = []
    for n in own_nodes(asm.node):
        if isinstance(n, ast.Assign) and isinstance(n.targets[0], ast.Subscript) and const_str(n.targets[0].slice) == "file tree" and isinstance(n.value, ast.Dict) \
                and len(n.value.keys) == 1 and n.value.keys[0] is not None:
            keys.append((n, n.value.keys[0]))
    if len(keys) != 1:
        return und("single-file tree literal {name: leaf} not found (%d candidates)" % len(keys), asm.node, asm)
    st, k = keys[0]
    # what is recorded as info['name'] (in the family's constructor chain)
    rec = []
    name_defs = {}
    for c in ctx.prog.mro(cls):
        for m in c.methods.values():
            for x in own_nodes(m.node):
                if isinstance(x, ast.Assign):
                    for t in x.targets:
                        if isinstance(t, ast.Subscript) and const_str(t.slice) == "name" and const_str(getattr(t.value, "slice", None)) == "info":
                            rec.append((m, x.value))
                        if isinstance(t, ast.Attribute) and isinstance(t.value, ast.Name) and t.value.id == m.self_name:
                            name_defs.setdefault(t.attr, []).append((m, x.value))
    if len(rec) != 1:
        return und("store of info['name'] not found exactly once (%d)" % len(rec), st, asm)

    def nfs(e, seen=(), only=None):
        if isinstance(e, ast.Subscript) and const_str(e.slice) == "name":
            return {"<recorded name>"}
        if isinstance(e, ast.Attribute) and isinstance(e.value, ast.Name) and e.attr in name_defs and e.attr not in seen:
            out = set()
            for m, v in name_defs[e.attr]:
                if only is None or m is only:
                    out |= nfs(v, seen + (e.attr,), only)
            return out
        if isinstance(e, ast.Name):
            # a local with a single definition in the recording method
            for m in ([only] if only is not None else []):
                vals = [x.value for x in own_nodes(m.node) if isinstance(x, ast.Assign) and len(x.targets) == 1 and isinstance(x.targets[0], ast.Name) and x.targets[0].id == e.id]
                if len(vals) == 1 and e.id not in seen:
                    return nfs(vals[0], seen + (e.id,), only)
        return {_name_nf(e)}
    want = nfs(rec[0][1], (), rec[0][0])
    have = nfs(k)
    if "<recorded name>" in have:
        have = (have - {"<recorded name>"}) | want
    if have == want and len(want) == 1:
        return Fact("the recorded name (info['name'])", k, asm)
    return Fact("`%s`, defined as %s, while info['name'] is %s" % (norm(k), " / ".join(sorted(have)), " / ".join(sorted(want))), k, asm)


SPEC_TRAVERSE = {
    "single.key": "the recorded name (info['name'])",
    "entry.call": "entered on the content root, outside any loop, result stored as info['file tree']",
    "size": "getsize(path)",
    "empty.leaf": "length-only leaf returned iff size == 0, before any hashing",
    "empty.length": "length = size",
    "leaf": "{length: size, pieces root: hasher.root}",
    "layer.member": "size Gt self.piece_length",
    "layer.key": "hasher.root",
    "dir.order": "sorted(os.listdir(path))",
    "dir.loop": "tree[name] = traverse(join(path, name)) for every name",
    "dir.return": "returns the tree",
}
ACCEPT_TRAVERSE = {
    "layer.value": {"hasher.piece_layer", "concatenation of every layer hash the hasher yields, in order"},
}


def hybrid_entry_facts(ctx, cq, fn, fb, sv, hv):
    """C03.1 / C03.2: the v1 file list built during the traversal."""
    g = C.cfg_of(fn)
    F = {}
    fbn = getattr(fb, "node", fb)
    body_nodes = [n for st in fb.body for n in ast.walk(st)]
    apps = [n for n in body_nodes if isinstance(n, ast.Call) and isinstance(n.func, ast.Attribute) and n.func.attr == "append" and norm(n.func.value) == "self.files" and n.args]
    # the record may be built by a one-expression helper (`self._file_entry(path, size)`): read through it
    recs = {id(a): (C.inline_single_return(ctx, fn, a.args[0]) or a.args[0]) for a in apps}
    real = [a for a in apps if isinstance(recs[id(a)], ast.Dict)]
    pads = [a for a in apps if not isinstance(recs[id(a)], ast.Dict)]
    flag = "self.hybrid"
    if len(real) == 1:
        d = {const_str(k): v for k, v in zip(recs[id(real[0])].keys, recs[id(real[0])].values)}
        lv = norm(d.get("length"))
        pv = d.get("path")
        p = [x for x in fn.params if x != fn.self_name][0]
        rel = isinstance(pv, ast.Call) and isinstance(pv.func, ast.Attribute) and pv.func.attr == "split" and norm(pv.args[0]) == "os.sep" \
            and isinstance(pv.func.value, ast.Call) and C.is_ext_call(ctx, pv.func.value, fn, ("os.path.relpath",)) and [norm(a) for a in pv.func.value.args] == [p, "self.path"]
        F["entry"] = Fact("{length: size, path: relpath(path, root).split(sep)}" if lv == sv and rel and set(d) == {"length", "path"} else "{%s}" % ", ".join("%s: %s" % (k, norm(v)) for k, v in d.items()), real[0], fn)
        rn = C.stmt_node(ctx, fn, real[0])
        deps = [(norm(C.test_expr(b)), lab) for b, lab in g.direct_control_deps(rn) if C.test_expr(b) is not None and b.ast is not fbn]
        deps = [d2 for d2 in deps if d2 != (flag, "true")]
        rets = [n for n in body_nodes if isinstance(n, ast.Return)]
        before_all = all(C.stmt_node(ctx, fn, r) in g.reachable(rn) for r in rets)
        F["entry.once"] = Fact("appended once for every file (empty ones included), before the leaf is returned" if not deps and before_all and not C.in_loop(ctx, fn, real[0])
                               else "appended under %s%s" % (deps or "no condition", "" if before_all else "; not before every return"), real[0], fn)
    else:
        F["entry"] = und("expected one non-padding entry append, found %d" % len(real), fbn, fn)
    if len(pads) == 1:
        a = pads[0]
        src = norm(a.args[0])
        pn = C.stmt_node(ctx, fn, a)
        conds = sorted(norm(C.test_expr(b)) for b, lab in g.direct_control_deps(pn) if C.test_expr(b) is not None and lab == "true" and b.ast is not fbn)
        want_conds = [c for c in conds if c not in (flag,)]
        foreign_pad = _foreign_object(src, fn, hv) or (src if _bare_local(src, fn, {hv}) else None)
        ok_src = src == "%s.padding_file" % hv
        ok_cond = all(src in c for c in want_conds) and bool(want_conds)
        after = bool(real) and pn in g.reachable(C.stmt_node(ctx, fn, real[0]))
        F["padding.entry"] = Fact("hasher.padding_file appended after the file's own entry iff the hasher produced one" if ok_src and ok_cond and after else
                                  "append(%s) under %s%s" % (src, conds, "" if after else " before the file entry"), a, fn) if not foreign_pad else \
            und("the padding entry is read from `%s`, an object other than the per-file hasher, which the extractor does not follow" % src, a, fn)
    else:
        F["padding.entry"] = und("expected one padding entry append, found %d" % len(pads), fbn, fn)
    # pieces
    pe = [n for n in body_nodes if isinstance(n, ast.Call) and isinstance(n.func, ast.Attribute) and n.func.attr == "extend" and norm(n.func.value) == "self.pieces"]
    if len(pe) == 1:
        v = norm(pe[0].args[0])
        ok = v == "%s.pieces" % hv
        if not ok and isinstance(pe[0].args[0], ast.Name):
            # `layer_hash, piece = result` inside `for result in hasher`: the second element of what the hasher yields
            for what, payload in ctx.res.bindings(fn).get(v, []):
                if what == "unpack" and payload[1] == 1 and isinstance(payload[0], ast.Name):
                    src = ctx.res.bindings(fn).get(payload[0].id, [])
                    if any(w == "iter" and norm(it) == hv for w, it in src):
                        ok = True
                # `for layer_hash, piece in hasher:` - the same, unpacked in the loop target
                if what == "iterunpack" and payload[1] == 1 and norm(payload[0]) == hv:
                    ok = True
        if not ok and isinstance(pe[0].args[0], ast.Name) and hv is not None:
            # a local that collects them first: pieces = bytearray(); for layer, piece in hasher: pieces.extend(piece)
            ok = _concat_of_yields(ctx, fn, g, body_nodes, v, hv, (1,))
            if isinstance(ok, str):
                F["v1.pieces"] = Fact("extended with " + ok, pe[0], fn)
                ok = None
        if ok is not None:
            F["v1.pieces"] = Fact("extended with the hasher's v1 piece hashes" if ok else "extend(%s)" % v, pe[0], fn) if ok or not (_foreign_object(v, fn, hv) or _bare_local(v, fn, {hv})) else \
                und("the v1 piece hashes are read from `%s`, an object other than the per-file hasher, which the extractor does not follow" % v, pe[0], fn)
    else:
        F["v1.pieces"] = und("expected one extension of self.pieces, found %d" % len(pe), fbn, fn)
    if hv is None:
        for k in ("padding.entry", "v1.pieces"):
            if k in F and F[k].value != UND:
                F[k] = und("the per-file hasher is not constructed in this function: its attributes cannot be identified", F[k].node, fn)
    return F


SPEC_HYBRID_ENTRIES = {
    "entry": "{length: size, path: relpath(path, root).split(sep)}",
    "entry.once": "appended once for every file (empty ones included), before the leaf is returned",
    "padding.entry": "hasher.padding_file appended after the file's own entry iff the hasher produced one",
    "v1.pieces": "extended with the hasher's v1 piece hashes",
}
