"""C10 - all creators and all hashers agree on the same payload (code-level agreement)."""
import ast

from tfsa.loader import own_nodes
from tfsa.report import norm
from tfsa.resolve import const_str
from . import common as C
from . import hashfacts as HF
from . import creatorfacts as CF
from .hash_mutants import MUT_C10

PROP = "C10"
EXPLANATION = (
    "Decided as code-level agreement, which implies behavioural agreement. Tier A (sufficient, never alarms): paired "
    "methods are compared after alpha-normalisation and removal of logging / progress / close statements. Tier B "
    "(necessary): the fact tables of C02.4 / C03.3 are extracted from each sibling by role and compared WITH EACH OTHER - "
    "the triple (HasherV2, HasherHybrid, FileHasher) for leaf, padding, layer, piece layer and root facts, the pair "
    "(HasherHybrid, FileHasher) for the v1 piece / zero-extension / padding-record facts. A one-sided edit of any fact "
    "makes the normal forms differ and is reported naming the odd implementation; an unextractable fact is undecided. "
    "C10.3: the creator pairs (TorrentFileV2, TorrentAssembler) and (TorrentFileHybrid, TorrentAssembler) agree on leaf "
    "shape, empty-file rule, piece-layer predicate, listing order, the sequence file entry / hash / padding entry, and on "
    "the key sets their assemble stores. C10.4: the hashers used by rebuild (HasherV2) and recheck (FileHasher) are "
    "members of the compared triple and every keyword passed at a construction site exists in the constructor's signature.")
RULE_TEXT = "one obligation per fact compared across siblings, per creator pair fact, per hasher construction site"

STRIP = ("logger", "progbar", "self.cb", "close", "print")


class Alpha(ast.NodeTransformer):
    def __init__(self):
        self.map = {}

    def visit_Name(self, n):
        if n.id not in self.map:
            self.map[n.id] = "v%d" % len(self.map)
        return ast.copy_location(ast.Name(id=self.map[n.id], ctx=n.ctx), n)

    def visit_arg(self, n):
        if n.arg not in self.map:
            self.map[n.arg] = "v%d" % len(self.map)
        n.arg = self.map[n.arg]
        n.annotation = None
        return n


def alpha_text(fn):
    import copy
    node = copy.deepcopy(fn.node)
    body = []
    for st in node.body:
        if isinstance(st, ast.Expr) and isinstance(st.value, ast.Constant):
            continue
        txt = ast.unparse(st)
        if isinstance(st, ast.Expr) and any(txt.startswith(s) or ("." + s) in txt.split("(")[0] for s in STRIP):
            continue
        body.append(st)
    node.body = body or [ast.Pass()]
    node.decorator_list = []
    node.returns = None
    node.name = "f"
    return ast.unparse(Alpha().visit(node))


def keys_stored(ctx, fn):
    info, top = set(), set()
    for n in own_nodes(fn.node):
        if isinstance(n, ast.Assign) and isinstance(n.targets[0], ast.Subscript) and const_str(n.targets[0].slice):
            from .c06 import _is_info_base
            (info if _is_info_base(ctx, None, n.targets[0].value, fn) else top).add(const_str(n.targets[0].slice))
    return info, top


def run(ctx):
    ctx.trust("agreement of normal forms implies agreement of behaviour; the converse is why tier A alone never alarms")
    prog = ctx.prog
    trip = [prog.cls("torrentfile.hasher:HasherV2"), prog.cls("torrentfile.hasher:HasherHybrid"), prog.cls("torrentfile.hasher:FileHasher")]
    # ---- tier A
    for a, b, m in ((trip[1], trip[2], "_pad_remaining"), (trip[1], trip[2], "_calculate_root"), (trip[0], trip[1], "_calculate_root")):
        fa, fb = a.methods.get(m), b.methods.get(m)
        if fa is None or fb is None:
            continue
        same = alpha_text(fa) == alpha_text(fb)
        ctx.holds("C10.1", fa, "%s.%s and %s.%s are %s" % (a.name, m, b.name, m, "alpha-equivalent" if same else "not textually equivalent (decided by the fact comparison below)"),
                  "%s.%s ~ %s.%s" % (a.name, m, b.name, m), nontrivial=same)
    # ---- tier B
    facts = {}
    hs = {}
    for c in trip:
        H, F = HF.v2_facts(ctx, c)
        facts[c.name] = F
        hs[c.name] = H
    n = 0
    for k in HF.SPEC_V2:
        vals = {}
        und = []
        for c in trip:
            f = facts[c.name].get(k)
            v = HF.normalise_fact(k, f.value) if f is not None else HF.UND
            if v == HF.UND or (isinstance(v, str) and v.startswith("?")):
                und.append(c.name)
            vals[c.name] = v
        n += 1
        label = "hashers :: " + k
        if und:
            ctx.undecided("C10.2", None, "fact %r could not be extracted from %s" % (k, ", ".join(und)), label)
            continue
        groups = {}
        for name, v in vals.items():
            groups.setdefault(v, []).append(name)
        if len(groups) == 1 or (k in HF.ACCEPT and set(vals.values()) <= HF.ACCEPT[k]):
            ctx.holds("C10.2", None, "all three hashers: %s = %s" % (k, next(iter(groups))), label)
        else:
            odd = min(groups.items(), key=lambda kv: len(kv[1]))
            rest = max(groups.items(), key=lambda kv: len(kv[1]))
            f = facts[odd[1][0]].get(k)
            foreign = HF._foreign_atoms(str(odd[0]), str(rest[0])) + HF._foreign_atoms(str(rest[0]), str(odd[0]))
            fr = facts[rest[1][0]].get(k)
            if k in HF.EXPRESSION_FACTS:
                foreign += HF._unresolved_locals(f, str(odd[0]), str(rest[0]), (), ctx) + HF._unresolved_locals(fr, str(rest[0]), str(odd[0]), (), ctx)
            if foreign:
                # one side mentions an attribute the extractor could not reduce to its definition: texts cannot be compared
                ctx.undecided("C10.2", f.fn, "%s computes %s as `%s`, %s as `%s`; %s could not be reduced to a common form" % (", ".join(odd[1]), k, odd[0], ", ".join(rest[1]), rest[0], ", ".join(foreign)), label)
                continue
            ctx.violated("C10.2", f.fn, "%s computes %s as `%s` while %s compute `%s`: the same file gets different roots / layers / pieces depending on which code path hashes it" % (
                ", ".join(odd[1]), k, odd[0], ", ".join(rest[1]), rest[0]), label)
    pair = {}
    for name in ("HasherHybrid", "FileHasher"):
        pair[name] = HF.hybrid_facts(ctx, hs[name]) or {}
    for k in list(HF.SPEC_HYBRID) + ["v1.zero.guard"]:
        a, b = pair["HasherHybrid"].get(k), pair["FileHasher"].get(k)
        n += 1
        label = "hybrid hashers :: " + k
        if a is None or b is None or a.value == HF.UND or b.value == HF.UND or a.value.startswith("?") or b.value.startswith("?"):
            ctx.undecided("C10.2", None, "fact %r could not be extracted from both hybrid hashers" % k, label)
            continue
        va, vb = a.value, b.value
        if k == "v1.zero.guard":
            va = " & ".join(x for x in va.split(" & ") if "hybrid" not in x)
            vb = " & ".join(x for x in vb.split(" & ") if "hybrid" not in x)
        if va == vb:
            ctx.holds("C10.2", a.fn, "HasherHybrid and FileHasher: %s = %s" % (k, va), label)
        elif k in HF.EXPRESSION_FACTS and HF._unresolved_locals(a, va, vb, (), ctx) + HF._unresolved_locals(b, vb, va, (), ctx):
            ctx.undecided("C10.2", b.fn, "HasherHybrid has %s = `%s`, FileHasher has `%s`; the local name(s) %s could not be reduced to a common form" % (
                k, va, vb, ", ".join(HF._unresolved_locals(a, va, vb, (), ctx) + HF._unresolved_locals(b, vb, va, (), ctx))), label)
        else:
            ctx.violated("C10.2", b.fn, "HasherHybrid has %s = `%s`, FileHasher has `%s`: hybrid metafiles from the class-based and the command-line creator differ" % (k, va, vb), label)
    ctx.floor("facts compared across sibling hashers", 18, n)
    # the helper all three share must give the same answer however often a sibling hands it the same list
    HF.judge_facts(ctx, "C10.2", "merkle_root", HF.merkle_facts(ctx), {"merkle.pure": HF.SPEC_MERKLE["merkle.pure"]},
                   why="agreement of the hashers (HasherV2 reuses its all-zero piece list, the others build it once)")
    # ---- C10.3 creators
    tf = {}
    hy = {}
    for cq, (hname, hyb) in CF.CREATORS_V2.items():
        F, fn, fb, sv, hv = CF.traverse_facts(ctx, cq)
        tf[cq] = F
        if hyb:
            hy[cq] = CF.hybrid_entry_facts(ctx, cq, fn, fb, sv, hv)
    asm = "torrentfile.torrent:TorrentAssembler"
    for other in ("torrentfile.torrent:TorrentFileV2", "torrentfile.torrent:TorrentFileHybrid"):
        for k in CF.SPEC_TRAVERSE:
            a, b = tf[asm].get(k), tf[other].get(k)
            label = "%s ~ TorrentAssembler :: %s" % (other.split(":")[1], k)
            if a is None or b is None or HF.UND in (a.value, b.value) or a.value.startswith("?") or b.value.startswith("?"):
                ctx.undecided("C10.3", None, "traversal fact %r not extractable from both creators" % k, label)
            elif a.value == b.value:
                ctx.holds("C10.3", a.fn, "%s and TorrentAssembler agree: %s = %s" % (other.split(":")[1], k, a.value), label)
            else:
                ctx.violated("C10.3", a.fn, "TorrentAssembler has %s = `%s`, %s has `%s`: the command-line creator and the class-based creator build different info dictionaries" % (
                    k, a.value, other.split(":")[1], b.value), label)
    hq = "torrentfile.torrent:TorrentFileHybrid"
    for k in CF.SPEC_HYBRID_ENTRIES:
        a, b = hy[asm].get(k), hy[hq].get(k)
        label = "TorrentFileHybrid ~ TorrentAssembler :: " + k
        if a is None or b is None or HF.UND in (a.value, b.value) or a.value.startswith("?") or b.value.startswith("?"):
            ctx.undecided("C10.3", None, "hybrid entry fact %r not extractable from both creators" % k, label)
        else:
            ctx.decide("C10.3", a.fn, a.value == b.value, "both hybrid creators: %s = %s" % (k, a.value),
                       "TorrentAssembler has %s = `%s`, TorrentFileHybrid has `%s`" % (k, a.value, b.value), label)
    # key sets of assemble
    ks = {q: keys_stored(ctx, prog.cls(q).methods["assemble"]) for q in CF.CREATORS_V2}
    v2i, v2t = ks["torrentfile.torrent:TorrentFileV2"]
    hi, ht = ks[hq]
    ai, at = ks[asm]
    ctx.decide("C10.3", prog.cls(asm).methods["assemble"], v2i <= ai and v2t <= at and hi == ai and ht == at,
               "assemble key sets agree: v2 %s within assembler %s; hybrid == assembler" % (sorted(v2i | v2t), sorted(ai | at)),
               "assemble key sets differ: TorrentFileV2 %s, TorrentFileHybrid %s, TorrentAssembler %s" % (sorted(v2i | v2t), sorted(hi | ht), sorted(ai | at)), "assemble key sets")
    # ---- C10.4 users and keyword sets
    names = {c.name: c for c in trip}
    users = {"torrentfile.rebuild": "HasherV2", "torrentfile.recheck": "FileHasher"}
    sites = 0
    for f in prog.functions.values():
        for call in own_nodes(f.node):
            if not isinstance(call, ast.Call):
                continue
            for k in ctx.res.kinds(call.func, f):
                if k[0] == "class" and (k[1].name in names or k[1].name == "Hasher") and k[1].module.name == "torrentfile.hasher":
                    sites += 1
                    init = k[1].methods["__init__"]
                    params = set(init.all_params())
                    kws = {kw.arg for kw in call.keywords if kw.arg}
                    for kw in call.keywords:
                        if kw.arg is None:
                            kws |= dict_keys(ctx, f, kw.value)
                    bad = sorted(x for x in kws if x not in params)
                    too_many = len(call.args) > len([p for p in init.params if p != init.self_name])
                    ctx.decide("C10.4", f, not bad and not too_many, "%s(...) at this site passes only keywords the constructor accepts (%s)" % (k[1].name, sorted(kws)),
                               "%s(...) is constructed with keyword(s) %s its constructor does not accept: this code path raises TypeError while its siblings work" % (k[1].name, bad), call)
                    want = users.get(f.module.name)
                    if want:
                        ctx.decide("C10.4", f, k[1].name == want or k[1].name in names, "%s verifies with %s, a member of the compared triple" % (f.module.name.split(".")[1], k[1].name),
                                   "%s verifies with %s, which is not one of the compared hashers" % (f.module.name, k[1].name), norm(call) + " :: member")
    ctx.floor("hasher construction sites", 6, sites)


def dict_keys(ctx, f, expr):
    """Constant keys a **kwargs dictionary expression can carry (literal + subscript stores in the class)."""
    keys = set()
    name = norm(expr)
    scope = [f] if f.cls is None else list(f.cls.methods.values())
    for c in ([f.cls] if f.cls else []):
        for b in ctx.prog.mro(c):
            scope += [m for m in b.methods.values() if m not in scope]
    for m in scope:
        for n in own_nodes(m.node):
            if isinstance(n, ast.Assign):
                for t in n.targets:
                    if norm(t) == name and isinstance(n.value, ast.Dict):
                        keys |= {const_str(k) for k in n.value.keys if const_str(k)}
                    if isinstance(t, ast.Subscript) and norm(t.value) == name and const_str(t.slice):
                        keys.add(const_str(t.slice))
    return keys


MUTANTS = MUT_C10
QUICK_CANARIES = True
CLAIM = {
    "text": "Decided as agreement of extracted normal forms: every padding / root / piece-layer / leaf / zero-extension fact is extracted from each sibling hasher and compared pairwise, the "
            "creator pairs are compared fact by fact, and every hasher construction site is checked against the constructor's signature. Identical normal forms for all facts that "
            "determine the output imply identical info dictionaries and piece layers for every payload; a one-sided change shows up as a differing form.",
    "note": "The facts are the same role-based extraction as C02/C03; parts of the read loops that are not captured by a fact (e.g. FileHasher's end flag versus the while-loops of the "
            "class-based hashers) are compared only through the facts they feed. Unextractable facts are undecided, never violations.",
    "technique": "sibling cross-checking: alpha-equivalence (sufficient tier) and comparison of piecewise linear normal forms extracted by role (necessary tier), signature/keyword agreement",
    "design_ref": "DESIGN.md section 4, C10",
}
