"""Fact tables of the hashers, extracted as normal forms (DESIGN 3.8, C02.4 / C03.3 / C10 / C01.6)."""
import ast
import re

from tfsa.loader import own_nodes, AnalysisError
from tfsa.report import norm
from tfsa.resolve import const_str
from . import common as C
from .linear import Lin, lin_of, fold_int, module_consts

UND = "undecided"


class Fact:
    def __init__(self, value, node=None, fn=None, why=""):
        self.value = value      # canonical string, or UND
        self.node = node
        self.fn = fn
        self.why = why

    def __repr__(self):
        return "Fact(%r)" % (self.value,)


def und(why, node=None, fn=None):
    return Fact(UND, node, fn, why)


class Hasher:
    """Role-based view of one v2-capable hasher class."""

    def __init__(self, ctx, cls):
        self.ctx = ctx
        self.cls = cls
        self.consts = module_consts(cls.module)
        self.facts = {}
        self.LH = None
        self.L = None
        self.attr_defs = {}
        init = cls.methods.get("__init__")
        if init is not None:
            for n in own_nodes(init.node):
                if isinstance(n, ast.Assign):
                    # self.a = self.b = value defines both
                    for t in n.targets:
                        if isinstance(t, ast.Attribute) and isinstance(t.value, ast.Name) and t.value.id == init.self_name:
                            self.attr_defs.setdefault(t.attr, []).append(n.value)

    # ------------------------------------------------------------------ normal forms
    def atom_of(self, fn, env=None):
        env = env or {}

        def f(e):
            # self.attr defined once in __init__ from piece_length // BLOCK_SIZE etc.
            if isinstance(e, ast.Attribute) and isinstance(e.value, ast.Name) and e.value.id == fn.self_name:
                defs = self.attr_defs.get(e.attr, [])
                stores = [n for m in self.cls.methods.values() if m.name != "__init__" for n in own_nodes(m.node)
                          if isinstance(n, (ast.Assign, ast.AugAssign)) and any(isinstance(t, ast.Attribute) and t.attr == e.attr and isinstance(t.value, ast.Name) for t in (n.targets if isinstance(n, ast.Assign) else [n.target]))]
                if len(defs) == 1 and not stores:
                    d = defs[0]
                    if isinstance(d, ast.Name):          # self.piece_length = piece_length
                        return Lin.atom(d.id)
                    init = self.cls.methods["__init__"]
                    v = lin_of(d, self.consts, None, lambda x: Lin.atom(x.id) if isinstance(x, ast.Name) and x.id in init.params else None)
                    if v is not None:
                        return v
                return Lin.atom("self." + e.attr)
            if isinstance(e, ast.Name) and e.id in env:
                return env[e.id]
            return None
        return f

    def nf(self, e, fn, env=None):
        return lin_of(e, self.consts, None, self.atom_of(fn, env))


def zero_hash(ctx, e, consts):
    """bytes(32) / bytes(HASH_SIZE) / b'\\0' * 32 -> 32 (the length), else None."""
    if isinstance(e, ast.Call) and isinstance(e.func, ast.Name) and e.func.id in ("bytes", "bytearray") and len(e.args) == 1:
        return fold_int(e.args[0], consts)
    if isinstance(e, ast.BinOp) and isinstance(e.op, ast.Mult):
        for a, b in ((e.left, e.right), (e.right, e.left)):
            if isinstance(a, ast.Constant) and a.value in (b"\x00", b"\0") and fold_int(b, consts) is not None:
                return fold_int(b, consts)
    return None


def rep_of(H, e, fn, env, local_defs, depth=0):
    """Normalise a list expression to ('rep', element-desc, count NF) ; returns None if not of that shape."""
    ctx = H.ctx
    if depth > 6:
        return None
    if isinstance(e, ast.Name):
        vals = local_defs.get(e.id, [])
        if len(vals) == 1:
            return rep_of(H, vals[0], fn, env, local_defs, depth + 1)
        return None
    if isinstance(e, ast.ListComp) and len(e.generators) == 1 and not e.generators[0].ifs:
        g = e.generators[0]
        if isinstance(g.iter, ast.Call) and isinstance(g.iter.func, ast.Name) and g.iter.func.id == "range" and len(g.iter.args) == 1:
            cnt = piecewise_nf(H, g.iter.args[0], fn, env, local_defs)
            return ("rep", elem_desc(H, e.elt, fn, env, local_defs, depth + 1), cnt)
        return None
    if isinstance(e, ast.BinOp) and isinstance(e.op, ast.Mult):
        for a, b in ((e.left, e.right), (e.right, e.left)):
            if isinstance(a, ast.List) and len(a.elts) == 1:
                cnt = piecewise_nf(H, b, fn, env, local_defs)
                return ("rep", elem_desc(H, a.elts[0], fn, env, local_defs, depth + 1), cnt)
    if isinstance(e, ast.Call):
        # helper method returning a padding list:  self._pad_remaining(len(blocks))
        for t in C.targets_of(ctx, fn, e):
            if t.cls is H.cls or (t.cls is not None and H.cls in ctx.prog.subclasses(t.cls)):
                rets = [n.value for n in own_nodes(t.node) if isinstance(n, ast.Return) and n.value is not None]
                if len(rets) != 1:
                    return None
                params = [p for p in t.params if p != t.self_name]
                sub_env = {}
                for p, a in zip(params, e.args):
                    v = H.nf(a, fn, env)
                    if v is None:
                        return None
                    sub_env[p] = v
                ret_stmt = [n for n in own_nodes(t.node) if isinstance(n, ast.Return) and n.value is rets[0]][0]
                ld, env2 = env_at(H, t, ret_stmt, sub_env)
                return rep_of(H, rets[0], t, env2, ld, depth + 1)
    return None


def elem_desc(H, e, fn, env, local_defs, depth=0):
    z = zero_hash(H.ctx, e, H.consts)
    if z is not None:
        return "zeros(%d)" % z
    if isinstance(e, ast.Name):
        vals = local_defs.get(e.id, [])
        if len(vals) == 1 and depth < 6:
            return elem_desc(H, vals[0], fn, env, local_defs, depth + 1)
    if isinstance(e, ast.Call) and isinstance(e.func, ast.Name) and e.func.id == "merkle_root" and len(e.args) == 1:
        r = rep_of(H, e.args[0], fn, env, local_defs, depth + 1)
        if r is not None:
            return "merkle_root(%s)" % show_rep(r)
    if isinstance(e, ast.Call) and isinstance(e.func, ast.Attribute) and e.func.attr in ("digest",) and isinstance(e.func.value, ast.Call):
        return "a computed hash: %s" % norm(e)
    if isinstance(e, ast.Call) and depth < 6:
        inl = _inline_call(H, e, fn, env)
        if inl is not None:
            ret, t, env2, ld = inl
            return elem_desc(H, ret, t, env2, ld, depth + 1)
    return "?" + norm(e)


def _inline_call(H, e, fn, env):
    """A call of a package helper with one return statement and nothing but simple assignments before it (possibly memoised
    by a standard-library decorator): (return expression, helper, environment with the parameters bound to the normal
    forms of the arguments, local definitions)."""
    ctx = H.ctx
    tg = [t for t in C.targets_of(ctx, fn, e)]
    if len(tg) != 1:
        return None
    t = tg[0]
    rets = [n for n in own_nodes(t.node) if isinstance(n, ast.Return) and n.value is not None]
    if len(rets) != 1 or t.is_generator:
        return None
    if any(isinstance(n, (ast.For, ast.While, ast.Try, ast.With, ast.Global, ast.Nonlocal)) for n in own_nodes(t.node)):
        return None
    params = [p_ for p_ in t.params if p_ != t.self_name]
    if len(e.args) != len(params) or e.keywords:
        return None
    sub_env = {}
    for p_, a in zip(params, e.args):
        v = H.nf(a, fn, env)
        if v is None:
            return None
        sub_env[p_] = v
    ld, env2 = env_at(H, t, rets[0], sub_env)
    return rets[0].value, t, env2, ld


def show_rep(r):
    if r is None:
        return "?"
    return "rep(%s, %s)" % (r[1], show_pw(r[2]))


def show_pw(pw):
    if pw is None:
        return "?"
    if isinstance(pw, Lin):
        return repr(pw)
    return "{" + "; ".join("%s: %s" % (" & ".join(("" if pol else "not ") + t for t, pol in g) or "else", repr(v)) for g, v in pw) + "}"


def block_env(H, fn, start_env=None):
    """Symbolically evaluate the simple assignments of a function body (straight line + `if` without else) into
    piecewise linear definitions.  Returns (local single-definition map name -> [exprs], env name -> Lin | piecewise)."""
    local_defs = {}
    for n in own_nodes(fn.node):
        if isinstance(n, ast.Assign) and len(n.targets) == 1 and isinstance(n.targets[0], ast.Name):
            local_defs.setdefault(n.targets[0].id, []).append(n.value)
    env = dict(start_env or {})
    pw = {}

    def eval_stmts(stmts, guard):
        for st in stmts:
            if isinstance(st, ast.Assign) and len(st.targets) == 1 and isinstance(st.targets[0], ast.Name):
                name = st.targets[0].id
                cur = {k: v for k, v in env.items()}
                for k, alts in pw.items():
                    # inside a guard use the alternative consistent with it, else leave symbolic
                    pick = [v for g, v in alts if set(g) <= set(guard)]
                    if pick:
                        cur[k] = pick[-1]
                v = H.nf(st.value, fn, cur)
                if v is None:
                    pw.pop(name, None)
                    env.pop(name, None)
                    continue
                if guard:
                    old = pw.get(name) or ([((), env[name])] if name in env else [])
                    neg = tuple((t, not p) for t, p in guard) if len(guard) == 1 else None
                    new = [(g, val) for g, val in old]
                    if neg is not None:
                        new = [(tuple(g) + neg if not g else g, val) for g, val in old]
                    new.append((tuple(guard), v))
                    pw[name] = new
                    env.pop(name, None)
                else:
                    env[name] = v
                    pw.pop(name, None)
            elif isinstance(st, ast.If) and not st.orelse:
                t = st.test
                pol = True
                if isinstance(t, ast.UnaryOp) and isinstance(t.op, ast.Not):
                    t, pol = t.operand, False
                eval_stmts(st.body, guard + [(canon_test(H, t, fn), pol)])
            elif isinstance(st, (ast.For, ast.While, ast.With, ast.Try)):
                eval_stmts(getattr(st, "body", []), guard + [("<loop>", True)]) if False else None
    eval_stmts(fn.node.body, [])
    full = dict(env)
    for k, v in pw.items():
        full[k] = v
    return local_defs, full


def env_at(H, fn, stmt, start_env=None):
    """Like block_env, but evaluates only what precedes `stmt`, relative to the blocks that enclose it
    (guards of enclosing compound statements are taken for granted: we are computing values *at* stmt)."""
    prog = H.ctx.prog
    chain = []
    n = stmt
    while n is not None and n is not fn.node:
        p = prog.parent.get(n)
        for field in ("body", "orelse", "finalbody"):
            lst = getattr(p, field, None)
            if isinstance(lst, list) and n in lst:
                chain.append((lst, lst.index(n)))
        n = p
    chain.reverse()
    local_defs = {}
    for x in own_nodes(fn.node):
        if isinstance(x, ast.Assign) and len(x.targets) == 1 and isinstance(x.targets[0], ast.Name):
            local_defs.setdefault(x.targets[0].id, []).append(x.value)
    env = dict(start_env or {})
    pw = {}
    for lst, idx in chain:
        _eval_into(H, fn, lst[:idx], [], env, pw)
    full = dict(env)
    full.update(pw)
    return local_defs, full


def _eval_into(H, fn, stmts, guard, env, pw):
    for st in stmts:
        if isinstance(st, ast.Assign) and len(st.targets) == 1 and isinstance(st.targets[0], ast.Name):
            name = st.targets[0].id
            cur = dict(env)
            for k, alts in pw.items():
                pick = [v for g, v in alts if set(g) <= set(guard)]
                if pick:
                    cur[k] = pick[-1]
            v = H.nf(st.value, fn, cur)
            if v is None:
                pw.pop(name, None)
                env.pop(name, None)
                continue
            if guard:
                old = pw.get(name) or ([((), env[name])] if name in env else [])
                neg = tuple((t, not p) for t, p in guard) if len(guard) == 1 else None
                new = [((tuple(g) + neg) if (not g and neg is not None) else g, val) for g, val in old]
                new.append((tuple(guard), v))
                pw[name] = new
                env.pop(name, None)
            else:
                env[name] = v
                pw.pop(name, None)
        elif isinstance(st, ast.AugAssign) and isinstance(st.target, ast.Name):
            pw.pop(st.target.id, None)
            env.pop(st.target.id, None)
        elif isinstance(st, ast.If) and not st.orelse:
            t = st.test
            pol = True
            if isinstance(t, ast.UnaryOp) and isinstance(t.op, ast.Not):
                t, pol = t.operand, False
            _eval_into(H, fn, st.body, guard + [(norm(t), pol)], env, pw)
        elif isinstance(st, ast.If) and not guard and _simple_arms(st):
            # if c: x = A  else: x = B   ->  x = {c: A; not c: B}
            t = st.test
            pol = True
            if isinstance(t, ast.UnaryOp) and isinstance(t.op, ast.Not):
                t, pol = t.operand, False
            names = {a.targets[0].id for a in st.body + st.orelse}
            arms = {}
            for arm, p_ in ((st.body, pol), (st.orelse, not pol)):
                for a in arm:
                    v = H.nf(a.value, fn, {k: v_ for k, v_ in env.items() if isinstance(v_, Lin)})
                    arms.setdefault(a.targets[0].id, []).append((((norm(t), p_),), v))
            for nm in names:
                alts = arms.get(nm, [])
                if len(alts) == 2 and all(v is not None for _, v in alts):
                    pw[nm] = alts
                    env.pop(nm, None)
                else:
                    pw.pop(nm, None)
                    env.pop(nm, None)
        elif isinstance(st, (ast.If, ast.For, ast.While, ast.With, ast.Try)):
            # anything assigned inside is no longer known
            for x in ast.walk(st):
                if isinstance(x, (ast.Assign, ast.AugAssign)):
                    for t in (x.targets if isinstance(x, ast.Assign) else [x.target]):
                        if isinstance(t, ast.Name):
                            pw.pop(t.id, None)
                            env.pop(t.id, None)


def _simple_arms(st):
    """Both arms consist of plain assignments to local names only."""
    both = st.body + st.orelse
    return bool(st.orelse) and all(isinstance(a, ast.Assign) and len(a.targets) == 1 and isinstance(a.targets[0], ast.Name) for a in both)


def canon_test(H, t, fn):
    """Canonical text of a guard (attribute names replaced by roles where known)."""
    return norm(t)


def piecewise_nf(H, e, fn, env, local_defs):
    """NF of an integer expression; a Name with a guarded piecewise definition yields the piecewise list."""
    if isinstance(e, ast.Name) and e.id in env and not isinstance(env[e.id], Lin):
        return env[e.id]
    lin_env = {k: v for k, v in env.items() if isinstance(v, Lin)}
    v = H.nf(e, fn, lin_env)
    return v


# ---------------------------------------------------------------------------------------------- v2 facts
def v2_facts(ctx, cls):
    H = Hasher(ctx, cls)
    F = {}
    # ---- the piece function: appends sha256(...).digest() to a local list
    piece_fn = None
    leaf_append = None
    for m in cls.methods.values():
        for n in own_nodes(m.node):
            if isinstance(n, ast.Call) and isinstance(n.func, ast.Attribute) and n.func.attr == "append" and isinstance(n.func.value, ast.Name) and n.args:
                a = n.args[0]
                if isinstance(a, ast.Call) and isinstance(a.func, ast.Attribute) and a.func.attr == "digest" and isinstance(a.func.value, ast.Call) \
                        and C.is_ext_call(ctx, a.func.value, m, ("hashlib.sha256", "hashlib.sha1", "hashlib.md5")):
                    piece_fn, leaf_append = m, n
    if piece_fn is None:
        raise AnalysisError("anchor vanished: block-hash append in %s" % cls.qual)
    fn = piece_fn
    H.piece_fn = fn
    L = leaf_append.func.value.id
    hcall = leaf_append.args[0].func.value
    F["leaf.hash"] = Fact(C.ext_name(ctx, hcall, fn)[0], hcall, fn)
    # buffer slice discipline
    arg = hcall.args[0] if hcall.args else None
    buf = szn = None
    views = {}
    for n in own_nodes(fn.node):
        if isinstance(n, ast.Assign) and len(n.targets) == 1 and isinstance(n.targets[0], ast.Name) and isinstance(n.value, ast.Call) and norm(n.value.func) == "memoryview" \
                and len(n.value.args) == 1 and isinstance(n.value.args[0], ast.Name):
            views[n.targets[0].id] = n.value.args[0].id
    if isinstance(arg, ast.Subscript) and isinstance(arg.slice, ast.Slice) and arg.slice.lower is None and isinstance(arg.slice.upper, ast.Name) and isinstance(arg.value, ast.Name):
        buf, szn = views.get(arg.value.id, arg.value.id), arg.slice.upper.id
    elif isinstance(arg, ast.Name):
        buf = arg.id
    reads = [n for n in own_nodes(fn.node) if isinstance(n, ast.Assign) and isinstance(n.value, ast.Call) and isinstance(n.value.func, ast.Attribute)
             and n.value.func.attr == "readinto" and n.value.args and isinstance(n.value.args[0], ast.Name)]
    rd = [r for r in reads if r.value.args[0].id == buf]
    if buf and szn and rd and isinstance(rd[0].targets[0], ast.Name) and rd[0].targets[0].id == szn:
        F["leaf.input"] = Fact("buf[:n], n = readinto(buf)", arg, fn)
    elif buf and not szn and rd:
        F["leaf.input"] = Fact("whole buffer (stale bytes of a short read are hashed)", arg, fn)
    else:
        F["leaf.input"] = Fact("?" + norm(arg), arg, fn)
    # block size
    local_defs, env = block_env(H, fn)
    bdef = [n.value for n in own_nodes(fn.node) if isinstance(n, ast.Assign) and len(n.targets) == 1 and isinstance(n.targets[0], ast.Name) and n.targets[0].id == buf]
    if len(bdef) == 1 and isinstance(bdef[0], ast.Call) and isinstance(bdef[0].func, ast.Name) and bdef[0].func.id == "bytearray" and bdef[0].args:
        v = H.nf(bdef[0].args[0], fn)
        F["block.size"] = Fact(repr(v), bdef[0], fn)
    else:
        F["block.size"] = und("buffer definition not understood", None, fn)
    # blocks per piece: the for-range loop enclosing the read
    loop = None
    if rd:
        p = ctx.prog.parent.get(rd[0])
        while p is not None and p is not fn.node:
            if isinstance(p, ast.For):
                loop = p
                break
            p = ctx.prog.parent.get(p)
    N = None
    if loop is not None and isinstance(loop.iter, ast.Call) and isinstance(loop.iter.func, ast.Name) and loop.iter.func.id == "range" and len(loop.iter.args) == 1:
        N = H.nf(loop.iter.args[0], fn)
        F["blocks.per.piece"] = Fact(repr(N), loop.iter, fn)
    else:
        F["blocks.per.piece"] = und("read loop is not `for _ in range(n)`", loop.iter if loop else None, fn)
    # zero-size read leaves the loop before the append
    ok_break = False
    if loop is not None and szn:
        for st in loop.body:
            if isinstance(st, ast.If) and isinstance(st.test, ast.UnaryOp) and isinstance(st.test.op, ast.Not) and norm(st.test.operand) == szn \
                    and any(isinstance(x, ast.Break) for x in st.body):
                if st.lineno < leaf_append.lineno:
                    ok_break = True
            if isinstance(st, ast.If) and isinstance(st.test, ast.Compare) and norm(st.test.left) == szn and isinstance(st.test.ops[0], ast.Eq) \
                    and fold_int(st.test.comparators[0]) == 0 and any(isinstance(x, ast.Break) for x in st.body) and st.lineno < leaf_append.lineno:
                ok_break = True
    if loop is None or not szn:
        F["eof.break"] = und("the read loop / the variable holding the read size was not identified", loop, fn)
    else:
        F["eof.break"] = Fact("a zero-length read leaves the block loop before hashing" if ok_break else "a zero-length read is hashed as a block", loop, fn)
    for n in own_nodes(fn.node):
        if isinstance(n, ast.Call) and isinstance(n.func, ast.Attribute) and n.func.attr == "append" and isinstance(n.func.value, ast.Attribute) and n.args:
            a = n.args[0]
            src = a
            if isinstance(a, ast.Name) and len(local_defs.get(a.id, [])) == 1:
                src = local_defs[a.id][0]
            if isinstance(src, ast.Call) and isinstance(src.func, ast.Name) and src.func.id == "merkle_root":
                H.LH = n.func.value.attr
    # ---- padding of a short piece
    ext = [n for n in own_nodes(fn.node) if isinstance(n, ast.Call) and isinstance(n.func, ast.Attribute) and n.func.attr == "extend" and isinstance(n.func.value, ast.Name)
           and n.func.value.id == L and n.args]
    aug = [n for n in own_nodes(fn.node) if isinstance(n, ast.AugAssign) and isinstance(n.target, ast.Name) and n.target.id == L]
    if len(ext) + len(aug) != 1:
        F["pad.count"] = und("short-piece padding statement not found", None, fn)
        F["pad.guard"] = und("short-piece padding statement not found", None, fn)
        F["pad.elem"] = und("short-piece padding statement not found", None, fn)
    else:
        pst = (ext or aug)[0]
        pexpr = pst.args[0] if ext else pst.value
        local_defs, env = env_at(H, fn, ctx.prog.enclosing_stmt(pst))
        r = rep_of(H, pexpr, fn, env, local_defs)
        pad_understood = r is not None
        if r is None:
            F["pad.count"] = und("padding list not of the form [zero]*n", pexpr, fn)
            F["pad.elem"] = und("padding list not of the form [zero]*n", pexpr, fn)
        else:
            F["pad.elem"] = Fact(r[1], pexpr, fn)
            F["pad.count"] = Fact(canon_pad_count(H, r[2], L), pexpr, fn)
        # guard
        g = C.cfg_of(fn)
        pn = C.stmt_node(ctx, fn, pst)
        deps = [(b, lab) for b, lab in g.direct_control_deps(pn) if b.kind == "test"]
        gtxt = []
        for b, lab in deps:
            t = C.test_expr(b)
            if isinstance(t, ast.Compare) and len(t.ops) == 1 and norm(t.left) == "len(%s)" % L:
                rv = H.nf(t.comparators[0], fn)
                op = type(t.ops[0]).__name__
                if lab == "false":
                    op = {"Eq": "NotEq", "NotEq": "Eq", "Lt": "GtE", "GtE": "Lt", "Gt": "LtE", "LtE": "Gt"}.get(op, op)
                gtxt.append("len(blocks) %s %r" % (op, rv))
        F["pad.guard"] = Fact(" & ".join(sorted(gtxt)) or "unconditional", pst, fn) if (pad_understood or gtxt) else \
            und("the padding comes from a helper that is not understood; its guard may live there", pst, fn)
    # ---- layer hash and its list
    LH = None
    for n in own_nodes(fn.node):
        if isinstance(n, ast.Call) and isinstance(n.func, ast.Attribute) and n.func.attr == "append" and isinstance(n.func.value, ast.Attribute) and n.args:
            a = n.args[0]
            src = a
            if isinstance(a, ast.Name) and len(local_defs.get(a.id, [])) == 1:
                src = local_defs[a.id][0]
            if isinstance(src, ast.Call) and isinstance(src.func, ast.Name) and src.func.id == "merkle_root":
                LH = n.func.value.attr
                ok = len(src.args) == 1 and isinstance(src.args[0], ast.Name) and src.args[0].id == L
                F["layer.hash"] = Fact("merkle_root(blocks)" if ok else "merkle_root(%s)" % norm(src.args[0]), src, fn)
    if LH is None:
        F["layer.hash"] = und("layer hash append not found", None, fn)
    H.LH = LH
    H.L = L
    # "first piece" guard must test the layer-hash list
    # ---- the root function
    root_fn = None
    for m in cls.methods.values():
        for n in own_nodes(m.node):
            if isinstance(n, ast.Assign) and any(isinstance(t, ast.Attribute) and t.attr == "root" for t in n.targets) and isinstance(n.value, ast.Call) \
                    and isinstance(n.value.func, ast.Name) and n.value.func.id == "merkle_root":
                root_fn, root_st = m, n
    if root_fn is None or LH is None:
        for k in ("piece.layer", "root.pad.guard", "root.pad.count", "root.pad.elem", "root"):
            F[k] = und("root computation not found", None, fn)
        return H, F
    rf = root_fn
    g = C.cfg_of(rf)
    ld2, env2 = block_env(H, rf)
    F["root"] = Fact("merkle_root(layer_hashes)" if len(root_st.value.args) == 1 and norm(root_st.value.args[0]) == "self." + LH else "merkle_root(%s)" % norm(root_st.value.args[0]), root_st, rf)
    muts = []
    for n in own_nodes(rf.node):
        if isinstance(n, ast.AugAssign) and norm(n.target) == "self." + LH:
            muts.append((n, n.value, None))
        if isinstance(n, ast.Call) and isinstance(n.func, ast.Attribute) and n.func.attr in ("append", "extend") and norm(n.func.value) == "self." + LH and n.args:
            muts.append((n, n.args[0], n.func.attr))
    pl = [n for n in own_nodes(rf.node) if isinstance(n, ast.Assign) and any(isinstance(t, ast.Attribute) and t.attr == "piece_layer" for t in n.targets)]
    if len(pl) == 1:
        v = pl[0].value
        joined = isinstance(v, ast.Call) and isinstance(v.func, ast.Attribute) and v.func.attr == "join" and v.args and norm(v.args[0]) == "self." + LH \
            and isinstance(v.func.value, ast.Constant) and v.func.value.value == b""
        pn = C.stmt_node(ctx, rf, pl[0])
        before = all(C.stmt_node(ctx, rf, m[0]) in g.reachable(pn) and pn not in g.reachable(C.stmt_node(ctx, rf, m[0])) for m in muts) if muts else True
        if joined and before:
            F["piece.layer"] = Fact("b''.join(layer_hashes) taken before root padding", pl[0], rf)
        elif joined:
            F["piece.layer"] = Fact("b''.join(layer_hashes) taken AFTER root padding (padding-only hashes included)", pl[0], rf)
        else:
            F["piece.layer"] = Fact("?" + norm(v), pl[0], rf)
    else:
        F["piece.layer"] = und("piece_layer assignment not found", None, rf)
    if len(muts) != 1:
        for k in ("root.pad.guard", "root.pad.count", "root.pad.elem"):
            F[k] = und("root padding statement not found (%d candidates)" % len(muts), None, rf)
    else:
        st, val, how = muts[0]
        ld2, env2 = env_at(H, rf, ctx.prog.enclosing_stmt(st))
        r = None
        if how == "append":
            # for _ in range(c): LH.append(X)
            p = ctx.prog.parent.get(ctx.prog.enclosing_stmt(st))
            if isinstance(p, ast.For) and isinstance(p.iter, ast.Call) and isinstance(p.iter.func, ast.Name) and p.iter.func.id == "range" and len(p.iter.args) == 1:
                r = ("rep", elem_desc(H, val, rf, env2, ld2), piecewise_nf(H, p.iter.args[0], rf, env2, ld2))
        else:
            r = rep_of(H, val, rf, env2, ld2)
        root_understood = r is not None
        if r is None:
            F["root.pad.count"] = und("root padding not of the form [pad]*n", val, rf)
            F["root.pad.elem"] = und("root padding not of the form [pad]*n", val, rf)
        else:
            F["root.pad.elem"] = Fact(canon_root_elem(H, r[1]), val, rf)
            F["root.pad.count"] = Fact(canon_root_count(H, r[2], LH), val, rf)
        sn = C.stmt_node(ctx, rf, st)
        gt = []
        for b, lab in g.control_deps(sn):
            if b.kind != "test":
                continue
            t = C.test_expr(b)
            if isinstance(t, ast.Compare) and len(t.ops) == 1:
                lv = H.nf(t.left, rf, {k: v for k, v in env2.items() if isinstance(v, Lin)})
                rv = H.nf(t.comparators[0], rf)
                op = type(t.ops[0]).__name__
                if lab == "false":
                    op = {"Gt": "LtE", "GtE": "Lt", "Lt": "GtE", "LtE": "Gt", "Eq": "NotEq", "NotEq": "Eq"}.get(op, op)
                gt.append("%s %s %r" % (repr(lv).replace("len(self.%s)" % LH, "len(layer_hashes)"), op, rv))
        F["root.pad.guard"] = Fact(" & ".join(sorted(gt)) or "unconditional", st, rf) if (root_understood or gt) else \
            und("the root padding comes from a helper that is not understood; its guard may live there", st, rf)
        rn = C.stmt_node(ctx, rf, root_st)
        if not (rn in g.reachable(sn) and sn not in g.reachable(rn)):
            F["root"] = Fact("root computed BEFORE the layer is padded to a power of two", root_st, rf)
    return H, F


def canon_pad_count(H, pw, L):
    """Canonical text of the short-piece padding count."""
    def ren(s):
        return s.replace("len(%s)" % L, "len(blocks)").replace("block_count", "len(blocks)")
    if pw is None:
        return "?"
    if isinstance(pw, Lin):
        return ren(repr(pw))
    def resolve(t, pol):
        """a guard that is a local flag defined once as `flag = not <attr>` / `flag = <attr>` reads as that attribute"""
        if t.isidentifier():
            vals = [n.value for f_ in H.ctx.prog.functions.values() if f_.module is H.cls.module for n in own_nodes(f_.node)
                    if isinstance(n, ast.Assign) and len(n.targets) == 1 and isinstance(n.targets[0], ast.Name) and n.targets[0].id == t]
            if vals and len({ast.dump(v_) for v_ in vals}) == 1:
                v_ = vals[0]
                if isinstance(v_, ast.UnaryOp) and isinstance(v_.op, ast.Not) and isinstance(v_.operand, ast.Attribute):
                    return norm(v_.operand), not pol
                if isinstance(v_, ast.Attribute):
                    return norm(v_), pol
        return t, pol
    alts = []
    for g, v in pw:
        g = [resolve(t, pol) for t, pol in g]
        gs = " & ".join(("" if pol else "not ") + t for t, pol in g)
        if H.LH:
            gs = gs.replace("self." + H.LH, "layer_hashes")
        alts.append("[%s] %s" % (gs or "else", ren(repr(v))))
    return "; ".join(sorted(alts))


def canon_root_elem(H, s):
    return s


def canon_root_count(H, pw, LH):
    s = show_pw(pw) if not isinstance(pw, Lin) else repr(pw)
    return s.replace("len(self.%s)" % LH, "len(layer_hashes)")


N_ATOM = "(piece_length)//(16384)"
SPEC_V2 = {
    "leaf.hash": "hashlib.sha256",
    "leaf.input": "buf[:n], n = readinto(buf)",
    "block.size": "16384",
    "blocks.per.piece": N_ATOM,
    "eof.break": "a zero-length read leaves the block loop before hashing",
    "pad.elem": "zeros(32)",
    "pad.guard": "len(blocks) NotEq %s" % N_ATOM,
    "pad.count": "[layer_hashes] %s - len(blocks); [not layer_hashes] next_power_2(len(blocks)) - len(blocks)" % N_ATOM,
    "layer.hash": "merkle_root(blocks)",
    "piece.layer": "b''.join(layer_hashes) taken before root padding",
    "root.pad.guard": "len(layer_hashes) Gt 1",
    "root.pad.count": "next_power_2(len(layer_hashes)) - len(layer_hashes)",
    "root.pad.elem": "merkle_root(rep(zeros(32), %s))" % N_ATOM,
    "root": "merkle_root(layer_hashes)",
}
ACCEPT = {
    "pad.guard": {"len(blocks) NotEq %s" % N_ATOM, "len(blocks) Lt %s" % N_ATOM},
}


def normalise_fact(key, value):
    """Bring equivalent spellings to the specification's spelling."""
    if value is None or value == UND or (isinstance(value, str) and value.startswith("?")):
        return value
    v = value
    if key == "pad.count":
        # order-insensitive alternatives, linear forms print atoms alphabetically: normalise `- len(blocks) + X`
        alts = []
        for alt in v.split("; "):
            g, _, body = alt.partition("] ")
            alts.append((g + "]", body))
        v = "; ".join(sorted("%s %s" % (g, _canon_lin_text(b)) for g, b in alts))
    if key in ("root.pad.count",):
        v = _canon_lin_text(v)
    return v


def _canon_lin_text(b):
    # "-1*len(blocks) + X"  ->  "X - len(blocks)"
    parts = [p.strip() for p in b.replace(" - ", " + -").split(" + ")]
    pos = sorted(p for p in parts if not p.startswith("-"))
    neg = sorted(p[1:].replace("1*", "", 1) if p.startswith("-1*") else p[1:] for p in parts if p.startswith("-"))
    return " + ".join(pos) + ("".join(" - " + n for n in neg))


def merkle_facts(ctx):
    """Structure of hasher.merkle_root and utils.next_power_2."""
    out = {}
    mr = ctx.prog.func("torrentfile.hasher:merkle_root")
    p0 = mr.params[0]
    whiles = [n for n in own_nodes(mr.node) if isinstance(n, ast.While)]
    # the working list: the parameter itself or a local bound to it before the loop (layer = blocks)
    alias = {p0}
    for n in own_nodes(mr.node):
        if isinstance(n, ast.Assign) and isinstance(n.value, ast.Name) and n.value.id in alias:
            alias |= {t.id for t in n.targets if isinstance(t, ast.Name)}
    p = p0
    if len(whiles) == 1 and isinstance(whiles[0].test, ast.Compare) and isinstance(whiles[0].test.left, ast.Call) and norm(whiles[0].test.left.func) == "len" \
            and whiles[0].test.left.args and isinstance(whiles[0].test.left.args[0], ast.Name) and whiles[0].test.left.args[0].id in alias:
        p = whiles[0].test.left.args[0].id
    ok_loop = len(whiles) == 1 and isinstance(whiles[0].test, ast.Compare) and norm(whiles[0].test.left) == "len(%s)" % p \
        and isinstance(whiles[0].test.ops[0], ast.Gt) and fold_int(whiles[0].test.comparators[0]) == 1
    out["merkle.loop"] = Fact("while len(blocks) > 1" if ok_loop else "?" + (norm(whiles[0].test) if whiles else "no loop"), whiles[0] if whiles else mr.node, mr)
    pair = None
    if whiles:
        for n in ast.walk(whiles[0]):
            if isinstance(n, ast.ListComp) and len(n.generators) == 1:
                g = n.generators[0]
                e = n.elt
                if isinstance(e, ast.Call) and isinstance(e.func, ast.Attribute) and e.func.attr == "digest" and isinstance(e.func.value, ast.Call):
                    h = e.func.value
                    hname = C.ext_name(ctx, h, mr)
                    arg = h.args[0] if h.args else None
                    tgt = g.target
                    if isinstance(arg, ast.BinOp) and isinstance(arg.op, ast.Add) and isinstance(tgt, ast.Tuple) and len(tgt.elts) == 2 \
                            and norm(arg.left) == norm(tgt.elts[0]) and norm(arg.right) == norm(tgt.elts[1]):
                        it = norm(g.iter)
                        pairs = it in ("zip(*[iter(%s)] * 2)" % p, "zip(%s[::2], %s[1::2])" % (p, p), "zip(*(iter(%s),) * 2)" % p)
                        pair = "%s(left + right) over consecutive pairs" % hname[0] if pairs else "?%s(left + right) over %s" % (hname[0], it)
                    elif isinstance(arg, ast.BinOp) and isinstance(arg.op, ast.Add) and isinstance(tgt, ast.Name) and not g.ifs:
                        # index form:  sha256(W[i] + W[i + 1])  for i in range(0, len(W) [- 1], 2)
                        iv = tgt.id
                        it = g.iter
                        rng = isinstance(it, ast.Call) and norm(it.func) == "range" and len(it.args) == 3 and fold_int(it.args[0]) == 0 and fold_int(it.args[2]) == 2 \
                            and norm(it.args[1]) in ("len(%s)" % p, "len(%s) - 1" % p)
                        idx = norm(arg.left) == "%s[%s]" % (p, iv) and norm(arg.right) == "%s[%s + 1]" % (p, iv)
                        pair = "%s(left + right) over consecutive pairs" % hname[0] if rng and idx else "?%s(%s) for %s in %s" % (hname[0], norm(arg), iv, norm(it))
                    elif arg is not None:
                        pair = "%s(%s)" % (hname[0] if hname else "?", norm(arg))
    out["merkle.pair"] = Fact(pair or "?pairing not found", whiles[0] if whiles else mr.node, mr)
    rets = [n for n in own_nodes(mr.node) if isinstance(n, ast.Return) and n.value is not None]
    out["merkle.result"] = Fact("blocks[0]" if any(norm(r.value) == "%s[0]" % p for r in rets) else "?" + ", ".join(norm(r.value) for r in rets), rets[0] if rets else mr.node, mr)
    out["merkle.pure"] = purity_fact(ctx, mr)
    np2 = ctx.prog.func("torrentfile.utils:next_power_2")
    v = np2.params[0]
    wl = [n for n in own_nodes(np2.node) if isinstance(n, ast.While)]
    desc = "?"
    if len(wl) == 1:
        t = wl[0].test
        body = wl[0].body
        s = norm(t.left) if isinstance(t, ast.Compare) else None
        upd = [b_ for b_ in body for x in ast.walk(b_) if isinstance(x, (ast.Assign, ast.AugAssign)) and any(isinstance(t_, ast.Name) and t_.id in (s, v)
               for t_ in ast.walk(x.target if isinstance(x, ast.AugAssign) else x.targets[0]))]
        dbl = len(upd) == 1 and isinstance(upd[0], ast.AugAssign) and norm(upd[0].target) == s and \
            ((isinstance(upd[0].op, ast.LShift) and fold_int(upd[0].value) == 1) or (isinstance(upd[0].op, ast.Mult) and fold_int(upd[0].value) == 2))
        init = [n for n in own_nodes(np2.node) if isinstance(n, ast.Assign) and norm(n.targets[0]) == s]
        init1 = len(init) == 1 and fold_int(init[0].value) == 1
        ret = any(isinstance(n, ast.Return) and norm(n.value) == s for n in own_nodes(np2.node))
        early = any(isinstance(n, ast.If) and any(isinstance(x, ast.BinOp) and isinstance(x.op, ast.BitAnd) for x in ast.walk(n.test))
                    and any(isinstance(r, ast.Return) and norm(r.value) == v for r in n.body) for n in np2.node.body)
        if isinstance(t, ast.Compare) and norm(t.comparators[0]) == v and dbl and init1 and ret:
            if isinstance(t.ops[0], ast.Lt):
                desc = "least power of two >= value (start 1, double while < value)"
            elif isinstance(t.ops[0], ast.LtE) and early:
                desc = "least power of two >= value (start 1, double while <= value, exact powers returned early)"
            else:
                desc = "start 1, double while %s value: not the least power of two >= value" % type(t.ops[0]).__name__
    if not wl:
        # closed form:  value < 2 -> 1 ;  1 << (value - 1).bit_length()
        rets2 = [n for n in own_nodes(np2.node) if isinstance(n, ast.Return) and n.value is not None]
        shift = [r for r in rets2 if isinstance(r.value, ast.BinOp) and isinstance(r.value.op, ast.LShift) and fold_int(r.value.left) == 1 and norm(r.value.right) == "(%s - 1).bit_length()" % v]
        small = [r for r in rets2 if fold_int(r.value) == 1]
        g2 = C.cfg_of(np2)
        if len(shift) == 1 and len(small) == 1 and len(rets2) == 2:
            sn = C.stmt_node(ctx, np2, small[0])
            conds = {(norm(C.test_expr(b)), lab) for b, lab in g2.control_deps(sn) if C.test_expr(b) is not None}
            if conds in ({("%s < 2" % v, "true")}, {("%s <= 1" % v, "true")}):
                desc = "least power of two >= value (start 1, double while < value)"      # same function, closed form
        # 1 << value.bit_length() is the least power of two STRICTLY greater than value: right for every value that is not
        # a power of two, wrong for 1, 2, 4, ... unless those are answered before (a test of value & (value - 1), or of
        # the bit count, that guards the return)
        strict = [r for r in rets2 if isinstance(r.value, ast.BinOp) and ((isinstance(r.value.op, ast.LShift) and fold_int(r.value.left) == 1) or (isinstance(r.value.op, ast.Pow) and fold_int(r.value.left) == 2))
                  and norm(r.value.right) == "%s.bit_length()" % v]
        exact_guard = any(isinstance(x, ast.BinOp) and isinstance(x.op, ast.BitAnd) for n in own_nodes(np2.node) if isinstance(n, (ast.If, ast.IfExp)) for x in ast.walk(n.test)) \
            or any(isinstance(x, ast.Attribute) and x.attr == "bit_count" for x in own_nodes(np2.node))
        rebinds = any(isinstance(x, ast.Name) and x.id == v and isinstance(x.ctx, ast.Store) for x in own_nodes(np2.node))
        if desc == "?" and strict and not exact_guard and not rebinds:
            desc = "1 << bit length of the value: the least power of two STRICTLY greater than it - an exact power of two (1, 2, 4, ...) is doubled"
    out["next_power_2"] = Fact(desc, wl[0] if wl else np2.node, np2)
    return out


def purity_fact(ctx, f):
    """Does the helper modify the list it is given?  (aliases of the parameter through plain `x = p` are followed.)
    A helper that folds in place returns the same value, but a caller that hands in the same list twice - HasherV2 builds
    its all-zero piece once and asks for its root inside a loop - gets a different answer the second time."""
    p = f.params[0]
    alias = {p}
    rebound = False
    for n in own_nodes(f.node):
        if isinstance(n, ast.Assign) and isinstance(n.value, ast.Name) and n.value.id in alias:
            alias |= {t.id for t in n.targets if isinstance(t, ast.Name)}
    g = C.cfg_of(f)
    from tfsa.reach import ReachDefs
    rd = ReachDefs(f, g)

    def is_param_obj(name_node, stmt):
        if name_node.id not in alias:
            return False
        defs = rd.reaching(name_node.id, C.stmt_node(ctx, f, stmt))
        # the name still (possibly) denotes the caller's list if a parameter definition or an alias assignment reaches
        return any(d.kind == "param" or (d.kind == "assign" and isinstance(d.value, ast.Name) and d.value.id in alias) for d in defs)
    muts = []
    for n in own_nodes(f.node):
        st = ctx.prog.enclosing_stmt(n) if not isinstance(n, ast.stmt) else n
        if isinstance(n, (ast.Assign, ast.AugAssign, ast.Delete)):
            tgts = n.targets if isinstance(n, (ast.Assign, ast.Delete)) else [n.target]
            for t in tgts:
                if isinstance(t, ast.Subscript) and isinstance(t.value, ast.Name) and is_param_obj(t.value, n):
                    muts.append(n)
                if isinstance(n, ast.AugAssign) and isinstance(t, ast.Name) and is_param_obj(t, n):
                    muts.append(n)
        if isinstance(n, ast.Call) and isinstance(n.func, ast.Attribute) and isinstance(n.func.value, ast.Name) \
                and n.func.attr in ("append", "extend", "insert", "pop", "remove", "clear", "sort", "reverse", "__setitem__", "__delitem__") and is_param_obj(n.func.value, st):
            muts.append(n)
    if not muts:
        return Fact("does not modify the list it is given", f.node, f)
    # is there a caller that keeps using the list?
    keeps = []
    weak = []
    for c in ctx.prog.functions.values():
        for call in own_nodes(c.node):
            if isinstance(call, ast.Call) and any(t is f for t in C.targets_of(ctx, c, call)) and call.args:
                a = call.args[0]
                if isinstance(a, ast.Attribute):
                    weak.append("%s passes %s" % (c.qual.split(":")[-1], norm(a)))
                elif isinstance(a, ast.Name):
                    cg = C.cfg_of(c)
                    cn = C.stmt_node(ctx, c, ctx.prog.enclosing_stmt(call))
                    redef = {m for m in cg.live_nodes() if m.kind == "stmt" and isinstance(m.ast, ast.Assign) and any(isinstance(t, ast.Name) and t.id == a.id for t in m.ast.targets)}
                    after = set()
                    for s2, _ in cn.succ:
                        if s2 not in redef:
                            after |= cg.reachable(s2, avoiding=redef)
                    later = [m for m in after if m not in redef and m.ast is not None and any(isinstance(x, ast.Name) and x.id == a.id and isinstance(x.ctx, ast.Load)
                                                                                         for x in ast.walk((C.test_expr(m) or m.ast) if m.kind == "test" else (m.ast.iter if m.kind == "iter" else m.ast)))]
                    if later:
                        keeps.append("%s passes `%s` and reads it again afterwards" % (c.qual.split(":")[-1], a.id))
    if keeps:
        return Fact("modifies the caller's list in place (`%s`), and %s" % (norm(muts[0])[:60], keeps[0]), muts[0], f)
    return Fact("?modifies its argument in place (`%s`); %s" % (norm(muts[0])[:60], "; ".join(weak[:2]) or "no caller seen to reuse the list"), muts[0], f)


SPEC_MERKLE = {
    "merkle.pure": "does not modify the list it is given",
    "merkle.loop": "while len(blocks) > 1",
    "merkle.pair": "hashlib.sha256(left + right) over consecutive pairs",
    "merkle.result": "blocks[0]",
}


# ---------------------------------------------------------------------------------------------- hybrid (v1 side) facts
def hybrid_facts(ctx, H):
    """Zero-extension facts of a hybrid-capable hasher (HasherHybrid.process_file / FileHasher.__next__)."""
    fn = H.piece_fn
    F = {}
    # the sha1 accumulator
    acc = None
    for n in own_nodes(fn.node):
        if isinstance(n, ast.Assign) and len(n.targets) == 1 and isinstance(n.targets[0], ast.Name) and isinstance(n.value, ast.Call) \
                and C.is_ext_call(ctx, n.value, fn, ("hashlib.sha1", "hashlib.sha256", "hashlib.md5")) and not n.value.args:
            acc = n.targets[0].id
            F["v1.hash"] = Fact(C.ext_name(ctx, n.value, fn)[0], n, fn)
    if acc is not None:
        # the accumulator goes by another name as well (piece = acc; a, b = (x, acc)): what is done through that name is not seen
        aliased = [n for n in own_nodes(fn.node) if isinstance(n, ast.Assign) and n.value is not None
                   and any(isinstance(x, ast.Name) and x.id == acc and isinstance(x.ctx, ast.Load) and (x is n.value or (isinstance(n.value, (ast.Tuple, ast.List)) and any(x is e for e in n.value.elts)))
                           for x in ast.walk(n.value))]
        if aliased:
            for k in ("v1.data", "v1.gap", "v1.zero.ext", "v1.pad.record", "v1.piece", "v1.zero.guard"):
                F[k] = und("the SHA-1 accumulator `%s` is also known by another name (`%s`): what is hashed through that name is not followed" % (acc, norm(aliased[0])[:50]), aliased[0], fn)
            return F
    if acc is None:
        return None
    ups = [n for n in own_nodes(fn.node) if isinstance(n, ast.Call) and isinstance(n.func, ast.Attribute) and n.func.attr == "update" and isinstance(n.func.value, ast.Name)
           and n.func.value.id == acc and n.args]
    data_up = [u for u in ups if isinstance(u.args[0], ast.Subscript)]
    pad_up = [u for u in ups if isinstance(u.args[0], ast.Call)]
    reads = [n for n in own_nodes(fn.node) if isinstance(n, ast.Assign) and isinstance(n.value, ast.Call) and isinstance(n.value.func, ast.Attribute) and n.value.func.attr == "readinto"]
    if len(data_up) == 1 and reads:
        a = data_up[0].args[0]
        buf = norm(reads[0].value.args[0])
        base = a.value
        if isinstance(base, ast.Name) and norm(base) != buf:
            # a view of the buffer (view = memoryview(buf), defined once): its slices are the buffer's
            vd = [n for n in own_nodes(fn.node) if isinstance(n, ast.Assign) and len(n.targets) == 1 and isinstance(n.targets[0], ast.Name) and n.targets[0].id == base.id]
            nst = [n for n in own_nodes(fn.node) if isinstance(n, ast.Name) and n.id == base.id and isinstance(n.ctx, ast.Store)]
            if len(vd) == 1 and len(nst) == 1 and isinstance(vd[0].value, ast.Call) and norm(vd[0].value.func) == "memoryview" and len(vd[0].value.args) == 1:
                base = vd[0].value.args[0]
        ok = isinstance(a.slice, ast.Slice) and a.slice.lower is None and norm(a.slice.upper) == norm(reads[0].targets[0]) and norm(base) == buf
        if not ok and isinstance(a.value, ast.Name) and norm(a.value) != buf and not (isinstance(a.slice, ast.Slice) and a.slice.lower is None and norm(a.slice.upper) != norm(reads[0].targets[0])):
            F["v1.data"] = und("the SHA-1 update takes `%s`, a slice of `%s`, which is not the buffer `%s` the read fills; what that name holds was not followed" % (norm(a), norm(a.value), buf), data_up[0], fn)
        else:
            F["v1.data"] = Fact("update(buf[:n]) with the block just read" if ok else "update(%s)" % norm(a), data_up[0], fn)
    else:
        F["v1.data"] = und("sha1 data update not found", None, fn)
    # plength
    decs = [n for n in own_nodes(fn.node) if isinstance(n, ast.AugAssign) and isinstance(n.op, ast.Sub) and isinstance(n.target, ast.Name)]
    pl = None
    for d in decs:
        if reads and norm(d.value) == norm(reads[0].targets[0]):
            pl = d.target.id
            dec = d
    recs0 = [n for n in own_nodes(fn.node) if isinstance(n, ast.Assign) and any(isinstance(t, ast.Attribute) and t.attr == "padding_file" for t in n.targets) and isinstance(n.value, ast.Dict)]
    alt = None
    if pl is None and len(recs0) == 1 and reads:
        alt = _gap_from_counter(ctx, H, fn, recs0[0], reads[0])
    if alt is not None:
        pl, dec, gap_fact = alt
    if pl is None:
        if len(recs0) == 1:
            lv = {const_str(k): v for k, v in zip(recs0[0].value.keys, recs0[0].value.values)}.get("length")
            F["v1.gap"] = Fact("%s, never reduced by the bytes read" % norm(lv), recs0[0], fn)
        else:
            F["v1.gap"] = und("remaining-length counter not found", None, fn)
        return F
    inits = [n for n in own_nodes(fn.node) if isinstance(n, ast.Assign) and len(n.targets) == 1 and norm(n.targets[0]) == pl]
    iv = H.nf(inits[0].value, fn) if len(inits) == 1 else None
    g = C.cfg_of(fn)
    # the decrement happens exactly once per non-empty read: same block as the leaf append
    loop = ctx.prog.parent.get(dec)
    same_iter = isinstance(loop, ast.For)
    if alt is not None:
        F["v1.gap"] = Fact(gap_fact, dec, fn)
    else:
        F["v1.gap"] = Fact("%s - (bytes read in this piece)" % repr(iv) if iv is not None and same_iter else "?init %s" % (norm(inits[0].value) if inits else "none"), dec, fn)
    # zero extension + padding record
    if len(pad_up) == 1:
        a = pad_up[0].args[0]
        z = isinstance(a, ast.Call) and isinstance(a.func, ast.Name) and a.func.id in ("bytes", "bytearray") and len(a.args) == 1 and norm(a.args[0]) == pl
        F["v1.zero.ext"] = Fact("update(bytes(gap))" if z else "update(%s)" % norm(a), pad_up[0], fn)
        pn = C.stmt_node(ctx, fn, pad_up[0])
        conds = []
        for b, lab in g.control_deps(pn, normal_only=True):
            if b.kind != "test":
                continue
            t = C.test_expr(b)
            for atom in C.atoms_of(t):
                if any(isinstance(x, ast.Name) and x.id == H.L for x in ast.walk(atom)):
                    continue        # `if not blocks: break` - the loop's exit test on the block list
                txt = norm(atom).replace(pl, "gap")
                if isinstance(t, ast.BoolOp) and isinstance(t.op, ast.Or):
                    txt = "(or) " + txt
                conds.append(("" if lab == "true" else "not ") + txt)
        F["v1.zero.guard"] = Fact(" & ".join(sorted(set(conds))), pad_up[0], fn)
        # the record
        recs = [n for n in own_nodes(fn.node) if isinstance(n, ast.Assign) and any(isinstance(t, ast.Attribute) and t.attr == "padding_file" for t in n.targets) and isinstance(n.value, ast.Dict)]
        if len(recs) == 1:
            d = {const_str(k): v for k, v in zip(recs[0].value.keys, recs[0].value.values)}
            ok = const_str(d.get("attr")) == "p" and norm(d.get("length")) == pl
            same_guard = C.stmt_node(ctx, fn, recs[0]) is not None and g.control_deps(C.stmt_node(ctx, fn, recs[0])) == g.control_deps(pn)
            F["v1.pad.record"] = Fact("attr='p', length=gap, recorded exactly when the zeros are hashed" if ok and same_guard else
                                      "attr=%r length=%s%s" % (const_str(d.get("attr")), norm(d.get("length")), "" if same_guard else " (recorded under a different condition than the zero-extension)"), recs[0], fn)
        else:
            F["v1.pad.record"] = und("padding record not found", None, fn)
    elif len(recs0) == 1 and not pad_up:
        F["v1.zero.ext"] = Fact("a padding entry is recorded but no zeros are hashed", recs0[0], fn)
    else:
        F["v1.zero.ext"] = und("zero-extension update not found", None, fn)
    # digest appended to pieces
    digs = [n for n in own_nodes(fn.node) if isinstance(n, ast.Call) and isinstance(n.func, ast.Attribute) and n.func.attr == "digest" and norm(n.func.value) == acc]
    if not digs:
        # no digest of the accumulator in this function at all: it is taken elsewhere (a helper, a record), not "never"
        F["v1.piece"] = und("no digest() of the SHA-1 accumulator `%s` in this function" % acc, None, fn)
        if "v1.zero.ext" in F and isinstance(F["v1.zero.ext"].value, str) and F["v1.zero.ext"].value.startswith("a padding entry is recorded but"):
            F["v1.zero.ext"] = und("the SHA-1 accumulator `%s` is finished elsewhere; whether the zeros are hashed there was not followed" % acc, None, fn)
    else:
        F["v1.piece"] = Fact("one digest() per piece" if len(digs) == 1 else "%d digest() calls" % len(digs), digs[0], fn)
    return F


def _gap_from_counter(ctx, H, fn, rec, read):
    """gap = piece_length - T with T a byte counter: (gap name, defining statement, fact text) or None.

    T counts the bytes of *this piece* when it is set to zero once per piece (inside the loop that produces one piece per
    iteration, or - for an iterator method - in the method body) and grows by every read's result; a counter set to zero
    outside the piece loop counts the whole file."""
    d = {const_str(k): v for k, v in zip(rec.value.keys, rec.value.values)}
    lv = d.get("length")
    if not isinstance(lv, ast.Name):
        return None
    gdefs = [n for n in own_nodes(fn.node) if isinstance(n, ast.Assign) and len(n.targets) == 1 and norm(n.targets[0]) == lv.id]
    if len(gdefs) != 1 or not (isinstance(gdefs[0].value, ast.BinOp) and isinstance(gdefs[0].value.op, ast.Sub) and isinstance(gdefs[0].value.right, ast.Name)):
        return None
    base = H.nf(gdefs[0].value.left, fn)
    T = gdefs[0].value.right.id
    sz = norm(read.targets[0])
    grows = [n for n in own_nodes(fn.node) if isinstance(n, ast.AugAssign) and isinstance(n.target, ast.Name) and n.target.id == T]
    inits = [n for n in own_nodes(fn.node) if isinstance(n, ast.Assign) and len(n.targets) == 1 and norm(n.targets[0]) == T]
    if len(grows) != 1 or not (isinstance(grows[0].op, ast.Add) and norm(grows[0].value) == sz) or len(inits) != 1 or norm(inits[0].value) != "0":
        return lv.id, gdefs[0], "?%s - %s (counter %s not understood)" % (repr(base), T, T)
    # is the counter reset for every piece?
    def loops_around(n):
        out = []
        p = ctx.prog.parent.get(n)
        while p is not None and p is not fn.node:
            if isinstance(p, (ast.For, ast.While)):
                out.append(p)
            p = ctx.prog.parent.get(p)
        return out
    per_piece = loops_around(inits[0]) == loops_around(gdefs[0])
    same_iter = isinstance(ctx.prog.parent.get(grows[0]), (ast.For, ast.While))
    if per_piece and same_iter:
        return lv.id, gdefs[0], "%s - (bytes read in this piece)" % repr(base)
    if per_piece:
        return lv.id, gdefs[0], "?%s - %s (where the counter %s grows was not understood)" % (repr(base), T, T)
    return lv.id, gdefs[0], "%s - (bytes read in the whole file so far: the counter %s is not reset for every piece)" % (repr(base), T)


SPEC_HYBRID = {
    "v1.hash": "hashlib.sha1",
    "v1.data": "update(buf[:n]) with the block just read",
    "v1.gap": "piece_length - (bytes read in this piece)",
    "v1.zero.ext": "update(bytes(gap))",
    "v1.pad.record": "attr='p', length=gap, recorded exactly when the zeros are hashed",
    "v1.piece": "one digest() per piece",
}


def _foreign_atoms(v, want):
    """Attribute / call atoms of the extracted text that do not occur in the specification text."""
    import re
    # only plain attributes of the receiver (self.x): an attribute the extractor could not resolve to its definition
    names = set(re.findall(r"\bself\.[A-Za-z_][A-Za-z_0-9]*(?![A-Za-z_0-9(.])", v))
    return sorted(n_ for n_ in names if n_ not in want)


# facts whose value is an expression in normal form (the others are statements about the code, which may name a variable)
EXPRESSION_FACTS = {"leaf.input", "block.size", "blocks.per.piece", "pad.elem", "pad.guard", "pad.count", "root.pad.guard", "root.pad.count", "root.pad.elem"}


def _record_field_in(f, v, want, ctx):
    """The extracted text reads `name.field` with name a local variable (not the receiver, not a module) of a function of the
    fact's module, and the specification text has no such reading: the name, else None."""
    import re
    fn = f.fn
    if fn is None or isinstance(fn, str) or ctx is None:
        return None
    for m in re.finditer(r"(?<![A-Za-z_0-9.])([a-z_][A-Za-z_0-9]*)\.([A-Za-z_][A-Za-z_0-9]*)(?!\()", v):
        base = m.group(1)
        if base in ("self", "os", "hashlib", "utils", "pyben") or m.group(0) in str(want):
            continue
        for g_ in [x for x in ctx.prog.functions.values() if x.module is fn.module]:
            if base in g_.params:
                continue
            if any(isinstance(n, ast.Name) and n.id == base and isinstance(n.ctx, ast.Store) for n in own_nodes(g_.node)):
                return base
    return None


def _partial_piecewise(v):
    """`[g] a` without `[not g] b` (and no `[else]`): one arm of a case distinction only."""
    import re
    guards = re.findall(r"\[([^\]]*)\] ", v)
    if not guards or "else" in guards or "" in guards:
        return False
    gs = set(guards)
    for g_ in gs:
        comp = g_[4:] if g_.startswith("not ") else "not " + g_
        if " & " in g_ or comp not in gs:
            return len(gs) == 1 and " & " not in g_
    return False


_CONSTRUCTORS = ("list", "bytearray", "bytes", "dict", "set", "tuple", "sha1", "sha256", "open", "iter", "memoryview", "deque")


def _unresolved_locals(f, v, want, accepted, ctx=None):
    """Identifiers of the extracted text that are local variables of the function the fact was read in and occur in no
    specification text for this fact: abbreviations the extractor did not reduce (target = ..., amount = ...)."""
    import re
    fn = f.fn
    if fn is None or isinstance(fn, str) or not isinstance(v, str):
        return []
    vocab = set(re.findall(r"[A-Za-z_][A-Za-z_0-9]*", " ".join([str(want)] + [str(a) for a in accepted])))
    # abbreviations only: one definition `name = <arithmetic / attribute / conditional expression>`, never updated in place;
    # looked for in every function of the module (the normal forms inline helpers, whose locals then show through)
    stored = set()
    params = set(fn.params)
    for g_ in ([x for x in ctx.prog.functions.values() if x.module is fn.module] if ctx is not None else [fn]):
        count = {}
        for n in own_nodes(g_.node):
            if isinstance(n, ast.Name) and isinstance(n.ctx, (ast.Store, ast.Del)):
                count[n.id] = count.get(n.id, 0) + 1
        mutated = {n.func.value.id for n in own_nodes(g_.node) if isinstance(n, ast.Call) and isinstance(n.func, ast.Attribute) and isinstance(n.func.value, ast.Name)}
        plain = {}
        for n in own_nodes(g_.node):
            # (also a name given one value per arm of a case distinction: every store of it is such an assignment, none reads it)
            if isinstance(n, ast.Assign) and len(n.targets) == 1 and isinstance(n.targets[0], ast.Name) and n.targets[0].id not in mutated \
                    and isinstance(n.value, (ast.Attribute, ast.BinOp, ast.IfExp, ast.Name, ast.Subscript, ast.Compare, ast.BoolOp, ast.UnaryOp, ast.Call)) \
                    and not (isinstance(n.value, ast.Call) and norm(n.value.func).split(".")[-1] in _CONSTRUCTORS) \
                    and not any(isinstance(x, ast.Name) and x.id == n.targets[0].id for x in ast.walk(n.value)):
                plain[n.targets[0].id] = plain.get(n.targets[0].id, 0) + 1
        for nm_, k_ in plain.items():
            if count.get(nm_) == k_:
                stored.add(nm_)
    out = []
    for m in re.finditer(r"(?<![A-Za-z_0-9.])([A-Za-z_][A-Za-z_0-9]*)(?![A-Za-z_0-9(])", v):
        nm = m.group(1)
        if nm in stored and nm not in vocab and nm not in params and nm not in out:
            out.append(nm)
    return out


def judge_facts(ctx, rid, who, facts, spec, accept=None, normalise=None, why="", reduced_attrs=False):
    """Compare extracted facts with a specification table; one obligation per fact."""
    accept = accept or {}
    n = 0
    for k, want in spec.items():
        f = facts.get(k)
        n += 1
        if f is None:
            ctx.undecided(rid, None, "%s: fact %r could not be extracted" % (who, k), "%s :: %s" % (who, k))
            continue
        v = normalise(k, f.value) if normalise else f.value
        label = "%s :: %s" % (who, k)
        if v == UND:
            ctx.undecided(rid, f.fn, "%s: %s not understood (%s)" % (who, k, f.why), label)
        elif v == want or v in accept.get(k, ()):
            ctx.holds(rid, f.fn, "%s: %s = %s" % (who, k, v), label)
        elif isinstance(v, str) and v.startswith("?"):
            ctx.undecided(rid, f.fn, "%s: %s has a shape the extractor does not understand: %s" % (who, k, v[1:]), label)
        elif isinstance(v, str) and re.search(r"(?<![A-Za-z0-9_'\"])\?[A-Za-z_]", v):
            # a part of the expression was not reduced (marked `?name` by the extractor): the text says nothing about it
            ctx.undecided(rid, f.fn, "%s: %s is `%s`, of which the part marked `?` was not reduced to the quantities of the specification" % (who, k, v), label)
        elif reduced_attrs and isinstance(v, str) and isinstance(want, str) and _foreign_atoms(v, want):
            # the fact mentions a name the extractor could not reduce to the quantities the specification speaks of (an
            # attribute defined in a way it does not follow, a call of a helper): nothing can be said by comparing texts
            ctx.undecided(rid, f.fn, "%s: %s is `%s`, where %s could not be reduced to the quantities of the specification (`%s`)" % (who, k, v, ", ".join(_foreign_atoms(v, want)), want), label)
        elif isinstance(v, str) and _record_field_in(f, v, want, ctx):
            ctx.undecided(rid, f.fn, "%s: %s is `%s`, which reads a field of the local object `%s`; what that object holds was not followed" % (who, k, v, _record_field_in(f, v, want, ctx)), label)
        elif k in ("pad.count", "root.pad.count") and isinstance(v, str) and _partial_piecewise(v):
            ctx.undecided(rid, f.fn, "%s: %s was extracted as `%s`, a case distinction with a case missing: the other case is computed where the extractor did not look" % (who, k, v), label)
        elif k in EXPRESSION_FACTS and _unresolved_locals(f, v, want, accept.get(k, ()), ctx):
            ctx.undecided(rid, f.fn, "%s: %s is `%s`, where the local name(s) %s could not be reduced to the quantities of the specification (`%s`)" % (
                who, k, v, ", ".join(_unresolved_locals(f, v, want, accept.get(k, ()), ctx)), want), label)
        else:
            ctx.violated(rid, f.fn, "%s: %s is `%s`; %s requires `%s`" % (who, k, v, why or "the specification", want), label)
    return n
