"""Byte-conservation clauses for the zero-fill / read helpers of recheck (C04.7 / C16.8).

Two analyses, both over the source only:
 (1) paired-counter form (Engler-style contradiction rule): inside a loop, every statement that adds bytes to the stream
     (`x.extend(bytearray(E))`, `x.extend(buf[:n])`, `yield bytearray(E)`, hashing `bytearray(E)`) sits in a block that also
     advances a progress counter by the same amount (`c += E`, `c -= E`, or `c = L` when E == L - c).  If the function pairs
     some emissions this way, an emission that is not paired is a violation.
 (2) closed form: for loop-free code (with `for _ in range(w)` repetition and `divmod`), the total number of bytes emitted
     is summed symbolically (integer-linear forms with the identity w*b + r == a for `w, r = divmod(a, b)`) and compared with
     the number of bytes requested.
Anything else is undecided.
"""
import ast

from tfsa.loader import own_nodes
from tfsa.report import norm
from . import common as C
from .linear import Lin, lin_of, module_consts


def amount_of(e):
    """Size expression of a zero buffer / slice being emitted, or None."""
    if isinstance(e, ast.Call) and isinstance(e.func, ast.Name) and e.func.id in ("bytearray", "bytes") and len(e.args) == 1:
        return e.args[0]
    if isinstance(e, ast.Subscript) and isinstance(e.slice, ast.Slice) and e.slice.lower is None and e.slice.upper is not None:
        return e.slice.upper
    return None


def emissions(fn, prog):
    """[(statement, amount expr, block statement list)]"""
    out = []
    local = {}
    for n in own_nodes(fn.node):
        if isinstance(n, ast.Assign) and len(n.targets) == 1 and isinstance(n.targets[0], ast.Name):
            local.setdefault(n.targets[0].id, []).append(n.value)

    def resolve(e):
        if isinstance(e, ast.Name) and len(local.get(e.id, [])) == 1:
            return local[e.id][0]
        return e
    def zero_hash(e):
        """e is sha(bytearray(E))[.digest()]: E, else None."""
        if isinstance(e, ast.Call) and isinstance(e.func, ast.Attribute) and e.func.attr == "digest" and not e.args:
            e = e.func.value
        if isinstance(e, ast.Call) and isinstance(e.func, ast.Name) and e.func.id in ("sha1", "sha256") and len(e.args) == 1 and isinstance(e.args[0], ast.Call):
            return amount_of(e.args[0])
        return None
    # a zero hash kept in a local that is yielded / returned later stands for its bytes where it is handed out, not where it is computed
    handed = {}
    for name, vals in local.items():
        if len(vals) == 1 and zero_hash(vals[0]) is not None and any(isinstance(x, (ast.Yield, ast.Return)) and isinstance(x.value, ast.Name) and x.value.id == name for x in own_nodes(fn.node)):
            handed[name] = vals[0]
    for n in own_nodes(fn.node):
        amt = None
        if isinstance(n, ast.Call) and isinstance(n.func, ast.Attribute) and n.func.attr == "extend" and n.args:
            amt = amount_of(resolve(n.args[0]))
        elif isinstance(n, ast.Yield) and n.value is not None:
            amt = amount_of(n.value)
            if amt is None and isinstance(n.value, ast.Name) and n.value.id in handed:
                amt = zero_hash(handed[n.value.id])
        elif isinstance(n, ast.Return) and isinstance(n.value, ast.Name) and n.value.id in handed:
            amt = zero_hash(handed[n.value.id])
        elif isinstance(n, ast.Call) and isinstance(n.func, ast.Name) and n.func.id in ("sha1", "sha256") and n.args:
            a = amount_of(n.args[0])
            if a is not None and isinstance(n.args[0], ast.Call) and not any(v is n or (isinstance(v, ast.Call) and isinstance(v.func, ast.Attribute) and v.func.value is n) for v in handed.values()):
                amt = a
        if amt is None:
            continue
        st = prog.enclosing_stmt(n)
        par = prog.parent.get(st)
        block = None
        for field in ("body", "orelse", "finalbody"):
            lst = getattr(par, field, None)
            if isinstance(lst, list) and st in lst:
                block = lst
        out.append((st, amt, block or [st]))
    return out


def paired(ctx, fn, st, amt, block, consts):
    """A counter update in the same block advances by the emitted amount."""
    want = lin_of(amt, consts)
    if want is None:
        return None
    # the statements of the block, then - when the block is an arm of an `if` - what follows that `if` in the block around it
    # (both arms fall through to it), and so on outwards up to the enclosing loop or function
    cands = list(block)
    node = st
    par = ctx.prog.parent.get(node)
    while isinstance(par, ast.If):
        outer = ctx.prog.parent.get(par)
        lst = None
        for field in ("body", "orelse", "finalbody"):
            l_ = getattr(outer, field, None)
            if isinstance(l_, list) and par in l_:
                lst = l_
        if lst is None:
            break
        cands += lst[lst.index(par) + 1:]
        node, par = par, outer
    for s in cands:
        if isinstance(s, ast.AugAssign) and isinstance(s.op, (ast.Add, ast.Sub)):
            v = lin_of(s.value, consts)
            if v is not None and v == want:
                return s
        if isinstance(s, ast.Assign) and len(s.targets) == 1 and isinstance(s.targets[0], (ast.Name, ast.Attribute)):
            tgt = lin_of(s.targets[0], consts)
            new = lin_of(s.value, consts)
            if tgt is not None and new is not None and (new.sub(tgt) == want or tgt.sub(new) == want):
                return s           # c = L  with  E == L - c (a counter of what was emitted) or E == c - L (of what is still missing)
    return None


def closed_form(ctx, fn, requested, consts):
    """('ok'|'bad'|None, text) for loop-free emission code."""
    env = {}
    ident = []          # (whole name, rest name, a Lin, b Lin)
    total = Lin.const(0)
    extras = []

    def nf(e):
        return lin_of(e, consts, None, lambda x: env.get(x.id) if isinstance(x, ast.Name) and x.id in env else None)

    def emit(amt_e, guard, times=None):
        nonlocal total
        v = nf(amt_e)
        if v is None:
            raise ValueError("amount %s" % norm(amt_e))
        if times is not None:
            if not (len(times.terms) == 1 and times.c == 0 and list(times.terms.values())[0] == 1 and v is not None):
                raise ValueError("repetition %r" % times)
            w = list(times.terms.keys())[0][0]
            done = False
            for (wn, rn, a, b) in ident:
                if wn == w and b == v:
                    # w * b == a - r
                    total = total.add(a).sub(Lin.atom(rn))
                    done = True
            if not done:
                raise ValueError("repetition without divmod identity")
            return
        if guard and not (len(guard) == 1 and guard[0] == norm(amt_e)):
            extras.append((guard, v))
        else:
            total = total.add(v)

    def walk(stmts, guard):
        for st in stmts:
            if isinstance(st, ast.Assign) and len(st.targets) == 1 and isinstance(st.targets[0], ast.Name):
                v = nf(st.value)
                if v is not None and not guard:
                    env[st.targets[0].id] = v
                elif st.targets[0].id in env and guard:
                    pass
            elif isinstance(st, ast.Assign) and isinstance(st.targets[0], ast.Tuple) and len(st.targets[0].elts) == 2 and isinstance(st.value, ast.Call) \
                    and isinstance(st.value.func, ast.Name) and st.value.func.id == "divmod" and len(st.value.args) == 2:
                a, b = nf(st.value.args[0]), nf(st.value.args[1])
                if a is None or b is None:
                    raise ValueError("divmod operands")
                ident.append((st.targets[0].elts[0].id, st.targets[0].elts[1].id, a, b))
            elif isinstance(st, ast.AugAssign) and isinstance(st.target, ast.Name) and st.target.id in env and isinstance(st.op, (ast.Add, ast.Sub)):
                v = nf(st.value)
                if v is None:
                    raise ValueError("update")
                if guard:
                    raise ValueError("guarded update of %s" % st.target.id)
                env[st.target.id] = env[st.target.id].add(v) if isinstance(st.op, ast.Add) else env[st.target.id].sub(v)
            elif isinstance(st, ast.If):
                if st.orelse:
                    raise ValueError("if/else")
                walk(st.body, guard + [norm(st.test)])
            elif isinstance(st, ast.For):
                it = st.iter
                if not (isinstance(it, ast.Call) and isinstance(it.func, ast.Name) and it.func.id == "range" and len(it.args) == 1):
                    raise ValueError("loop")
                times = nf(it.args[0])
                for b in st.body:
                    for x in ast.walk(b):
                        if isinstance(x, ast.Yield) and x.value is not None and amount_of(x.value) is not None:
                            if guard:
                                raise ValueError("guarded repetition")
                            emit(amount_of(x.value), guard, times)
            elif isinstance(st, (ast.While, ast.Try, ast.With)):
                raise ValueError("loop form")
            else:
                for x in ast.walk(st):
                    a = None
                    if isinstance(x, ast.Call) and isinstance(x.func, ast.Attribute) and x.func.attr == "extend" and x.args:
                        a = amount_of(x.args[0])
                    elif isinstance(x, ast.Yield) and x.value is not None:
                        a = amount_of(x.value)
                    if a is not None:
                        emit(a, guard)
    try:
        body = [s for s in fn.node.body if not (isinstance(s, ast.Expr) and isinstance(s.value, ast.Constant))]
        walk(body, [])
    except ValueError as exc:
        return None, str(exc)
    # rest atoms from divmod appear as -rest + rest
    if total == requested:
        if extras:
            g, v = extras[0]
            return "bad", "in addition to the %s bytes requested, %s more zero bytes are emitted when `%s`" % (requested, v, " and ".join(g))
        return "ok", "emits exactly %s bytes" % requested
    if not extras:
        return "bad", "emits %s bytes, %s were requested" % (total, requested)
    return None, "total %s with guarded parts" % total


def _last_emission(ctx, fn, st):
    """Nothing is executed after st but the end of the function (st closes the function body, possibly inside trailing ifs)."""
    node, par = st, ctx.prog.parent.get(st)
    while par is not None:
        lst = None
        for field in ("body", "orelse", "finalbody"):
            l = getattr(par, field, None)
            if isinstance(l, list) and node in l:
                lst = l
        if lst is None or lst[-1] is not node:
            return False
        if par is fn.node:
            return True
        if not isinstance(par, ast.If):
            return False
        node, par = par, ctx.prog.parent.get(par)
    return False


def _zero_standin(ctx):
    """What HashChecker installs as `self.hasher` when the payload file is missing, other than the real file hasher: the
    __next__ of that class, or that generator function; None when it cannot be identified."""
    cls = ctx.prog.classes.get("torrentfile.recheck:HashChecker")
    if cls is None:
        return None
    found = []
    for m in cls.methods.values():
        for n in own_nodes(m.node):
            if isinstance(n, ast.Assign) and any(isinstance(t, ast.Attribute) and t.attr == "hasher" for t in n.targets) and isinstance(n.value, ast.Call):
                for k in ctx.res.kinds(n.value.func, m):
                    if k[0] == "class" and k[1].name != "FileHasher":
                        nx = ctx.prog.find_method(k[1], "__next__")
                        if nx is not None and nx not in found:
                            found.append(nx)
                    elif k[0] == "func" and k[1].is_generator and k[1] not in found:
                        found.append(k[1])
    return found[0] if len(found) == 1 else None


def zero_fill_conservation(ctx, rid):
    consts = module_consts(ctx.prog.modules["torrentfile.recheck"])
    n = 0
    for q, req in (("torrentfile.recheck:FeedChecker._gen_padding", ("length", "read")), ("torrentfile.recheck:FeedChecker.extract", None),
                   ("torrentfile.recheck:HashChecker.Padder.__next__", None)):
        fn = ctx.prog.functions.get(q)
        if fn is None and q.endswith("Padder.__next__"):
            fn = _zero_standin(ctx)
        if fn is None:
            ctx.undecided(rid, None, "anchor vanished: %s" % q)
            continue
        ems = emissions(fn, ctx.prog)
        if not ems:
            ctx.undecided(rid, fn, "no byte-emitting statement recognised in %s" % fn.qualname)
            continue
        pairs = [(st, amt, paired(ctx, fn, st, amt, block, consts)) for st, amt, block in ems]
        if any(p is not None for _, _, p in pairs):
            for st, amt, p in pairs:
                n += 1
                if p is not None:
                    ctx.holds(rid, fn, "%s bytes enter the stream and the progress counter advances by the same amount (%s)" % (norm(amt), norm(p)), st)
                elif _last_emission(ctx, fn, st):
                    ctx.holds(rid, fn, "%s bytes enter the stream as the last thing the function does: no later emission depends on a counter" % norm(amt), st)
                else:
                    ctx.violated(rid, fn, "%s bytes enter the stream here but no progress counter advances by that amount in the same block, although the function accounts its other emissions: the stream gains or loses bytes and every later piece is shifted" % norm(amt), st)
            continue
        if req is not None:
            requested = Lin.atom(req[0]).sub(Lin.atom(req[1]))
            verdict, text = closed_form(ctx, fn, requested, consts)
            n += 1
            if verdict == "ok":
                ctx.holds(rid, fn, "%s %s" % (fn.qualname, text), "closed form of " + fn.qualname)
            elif verdict == "bad":
                ctx.violated(rid, fn, "%s: %s - every later piece of the stream is shifted, so intact pieces are reported as failed" % (fn.qualname, text), "closed form of " + fn.qualname)
            else:
                ctx.undecided(rid, fn, "byte accounting of %s not understood (%s)" % (fn.qualname, text), "closed form of " + fn.qualname)
        else:
            ctx.undecided(rid, fn, "byte accounting of %s not understood" % fn.qualname)
    ctx.floor("byte-emission sites accounted", 4, n)
