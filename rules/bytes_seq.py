"""What a straight-line run of statements feeds to SHA-1, as a symbolic byte sequence (used by C15.3).

A sequence is a list of parts:
    ("data",)          the bytes just read (their count is the atom `n`)
    ("zeros", Lin)     that many zero bytes
    ("stale",)         whatever a reused buffer held beyond the bytes just read
Statements understood: assignments of byte / integer / sha1 expressions to locals, `x.extend(e)`, `x += e`,
`d.update(e)`, `return sha1(e).digest()`, `return d.digest()`.  Anything else raises Unknown: the caller reports UNDECIDED.
"""
import ast

from tfsa.report import norm
from .linear import Lin, lin_of

N = Lin.atom("n")


class Unknown(Exception):
    pass


def canon(parts):
    out = []
    for p in parts:
        if p[0] == "zeros":
            if p[1].is_const() and p[1].c == 0:
                continue
            if out and out[-1][0] == "zeros":
                out[-1] = ("zeros", out[-1][1].add(p[1]))
                continue
        out.append(p)
    return out


def show(parts):
    return " + ".join({"data": "the bytes read", "stale": "stale bytes of the previous read"}.get(p[0]) or "%r zero bytes" % (p[1],) for p in canon(parts)) or "nothing"


def length(parts):
    tot = Lin.const(0)
    for p in parts:
        if p[0] == "data":
            tot = tot.add(N)
        elif p[0] == "zeros":
            tot = tot.add(p[1])
        else:
            raise Unknown("length of a sequence with stale bytes")
    return tot


class Interp:
    def __init__(self, is_sha1, leaf, int_atom, consts):
        """is_sha1(call) -> bool; leaf(expr) -> parts | None for buffers the caller knows; int_atom(expr) -> Lin | None."""
        self.is_sha1, self.leaf, self.int_atom, self.consts = is_sha1, leaf, int_atom, consts
        self.bytes_env, self.int_env, self.sha_env, self.unknown = {}, {}, {}, set()
        self.mutable = set()        # names of caller-known buffers (leaf) that a call could alter

    # ---- expressions
    def ev_int(self, e):
        def atom_of(x):
            if isinstance(x, ast.Name) and x.id in self.int_env:
                return self.int_env[x.id]
            if isinstance(x, ast.Name) and x.id in self.unknown:
                raise Unknown("value of %s is not understood" % x.id)
            if isinstance(x, ast.Call) and isinstance(x.func, ast.Name) and x.func.id == "len" and len(x.args) == 1:
                return length(self.ev_bytes(x.args[0]))
            return self.int_atom(x)
        v = lin_of(e, self.consts, atom_of=atom_of)
        if v is None:
            raise Unknown("integer expression `%s` is outside the term language" % norm(e))
        return v

    def ev_bytes(self, e):
        if isinstance(e, ast.Name) and e.id in self.bytes_env:
            return list(self.bytes_env[e.id])
        if isinstance(e, ast.Name) and e.id in self.unknown:
            raise Unknown("value of %s is not understood" % e.id)
        lf = self.leaf(e)
        if lf is not None:
            return list(lf)
        if isinstance(e, ast.Call) and isinstance(e.func, ast.Name) and e.func.id in ("bytearray", "bytes") and len(e.args) == 1 and not e.keywords:
            try:
                return self.ev_bytes(e.args[0])
            except Unknown:
                return [("zeros", self.ev_int(e.args[0]))]
        if isinstance(e, ast.Call) and isinstance(e.func, ast.Name) and e.func.id in ("bytearray", "bytes") and not e.args:
            return []
        if isinstance(e, ast.Constant) and isinstance(e.value, bytes):
            if e.value.strip(b"\0") == b"":
                return [("zeros", Lin.const(len(e.value)))]
            raise Unknown("a non-zero bytes literal")
        if isinstance(e, ast.Call) and isinstance(e.func, ast.Attribute) and e.func.attr == "ljust" and len(e.args) == 2:
            # x.ljust(w, b"\0"): x followed by w - len(x) zero bytes (x is shorter than w on the paths this rule follows)
            fill = self.ev_bytes(e.args[1])
            if len(fill) == 1 and fill[0][0] == "zeros" and fill[0][1] == Lin.const(1):
                base = self.ev_bytes(e.func.value)
                return base + [("zeros", self.ev_int(e.args[0]).sub(length(base)))]
        if isinstance(e, ast.BinOp) and isinstance(e.op, ast.Add):
            return self.ev_bytes(e.left) + self.ev_bytes(e.right)
        if isinstance(e, ast.Subscript) and isinstance(e.slice, ast.Slice) and e.slice.lower is None and e.slice.step is None and e.slice.upper is not None:
            # x[:k] where k is exactly the length of a prefix of the parts of x
            whole = canon(self.ev_bytes(e.value))
            k = self.ev_int(e.slice.upper)
            tot = Lin.const(0)
            for i, p in enumerate(whole):
                if tot == k:
                    return whole[:i]
                if p[0] == "stale":
                    break
                tot = tot.add(N if p[0] == "data" else p[1])
            if tot == k:
                return whole
            raise Unknown("slice `%s` does not end at a boundary this rule tracks" % norm(e))
        if isinstance(e, ast.BinOp) and isinstance(e.op, ast.Mult):
            for a, b in ((e.left, e.right), (e.right, e.left)):
                try:
                    unit = self.ev_bytes(a)
                except Unknown:
                    continue
                if len(unit) == 1 and unit[0][0] == "zeros" and unit[0][1].is_const():
                    return [("zeros", self.ev_int(b).scale(unit[0][1].c))]
        raise Unknown("bytes expression `%s` is not understood" % norm(e))

    def sha_arg(self, call):
        if not call.args:
            return []
        return self.ev_bytes(call.args[0])

    def hashed(self, v):
        """parts hashed by the expression v (`sha1(e).digest()` / `d.digest()`), else Unknown."""
        if isinstance(v, ast.Call) and isinstance(v.func, ast.Attribute) and v.func.attr == "digest" and not v.args:
            o = v.func.value
            if isinstance(o, ast.Call) and self.is_sha1(o):
                return self.sha_arg(o)
            if isinstance(o, ast.Name) and o.id in self.sha_env:
                return list(self.sha_env[o.id])
        raise Unknown("`%s` is not the digest of a SHA-1 object this rule followed" % norm(v))

    # ---- statements
    def step(self, st):
        """Interpret one statement; returns the hashed parts when it is a Return, else None."""
        if isinstance(st, ast.Return):
            if st.value is None:
                raise Unknown("returns nothing")
            return self.hashed(st.value)
        if isinstance(st, ast.Assign) and len(st.targets) == 1 and isinstance(st.targets[0], ast.Name):
            name, v = st.targets[0].id, st.value
            for env in (self.bytes_env, self.int_env, self.sha_env):
                env.pop(name, None)
            self.unknown.discard(name)
            if isinstance(v, ast.Call) and self.is_sha1(v):
                try:
                    self.sha_env[name] = self.sha_arg(v)
                except Unknown:
                    self.unknown.add(name)
                return None
            try:
                self.bytes_env[name] = self.ev_bytes(v)
                return None
            except Unknown:
                pass
            try:
                self.int_env[name] = self.ev_int(v)
                return None
            except Unknown:
                self.unknown.add(name)
            return None
        if isinstance(st, ast.AugAssign) and isinstance(st.target, ast.Name) and isinstance(st.op, ast.Add):
            name = st.target.id
            if name in self.int_env:
                self.int_env[name] = self.int_env[name].add(self.ev_int(st.value))
            else:
                self.bytes_env[name] = self.ev_bytes(st.target) + self.ev_bytes(st.value)
            return None
        if isinstance(st, ast.Expr) and isinstance(st.value, ast.Call) and isinstance(st.value.func, ast.Attribute) and isinstance(st.value.func.value, ast.Name) \
                and len(st.value.args) == 1:
            name, meth = st.value.func.value.id, st.value.func.attr
            if meth == "extend":
                self.bytes_env[name] = self.ev_bytes(st.value.func.value) + self.ev_bytes(st.value.args[0])
                return None
            if meth == "update" and name in self.sha_env:
                self.sha_env[name] = self.sha_env[name] + self.ev_bytes(st.value.args[0])
                return None
        if isinstance(st, ast.Expr) and isinstance(st.value, ast.Constant):
            return None
        if isinstance(st, ast.Expr) and isinstance(st.value, ast.Call):
            # a call that neither is a method of a tracked object nor receives one (logging, progress): no effect on the bytes
            call = st.value
            tracked = set(self.bytes_env) | set(self.sha_env) | set(self.mutable)
            base = call.func
            while isinstance(base, ast.Attribute):
                base = base.value
            handed = [a for a in list(call.args) + [k.value for k in call.keywords] if isinstance(a, ast.Name) and a.id in tracked]
            if not (isinstance(base, ast.Name) and base.id in tracked) and not handed:
                return None
        if isinstance(st, ast.Pass):
            return None
        raise Unknown("statement `%s` is not understood" % norm(st)[:60])
