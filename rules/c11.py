"""C11 - the magnet URI carries the true info-hash(es), name, trackers and web seeds."""
import ast

from tfsa.flow import Flow, walk_terms, show
from tfsa.loader import own_nodes, AnalysisError
from tfsa.pointsto import PointsTo
from tfsa.report import norm
from tfsa.resolve import const_str
from . import common as C
from .argtable import Parsers, MISSING

PROP = "C11"
EXPLANATION = (
    "Data-flow facts plus a decision table for commands.magnet / get_magnet (hash values themselves are delegated to "
    "hashlib and pyben). C11.1: both digests are taken over pyben.dumps(D) where D is the 'info' value of the decoded "
    "metafile and nothing reachable from magnet inserts into or deletes from D (points-to). C11.2: the constant prefix "
    "'urn:btih:' is concatenated with sha1(...).hexdigest() and 'urn:btmh:1220' with sha256(...).hexdigest() of that "
    "encoding (origin terms). C11.3: the function's CFG is traced for every satisfiable combination of "
    "('meta version' in info, 'pieces' in info, version in 0..3) and the set of xt parameters emitted is compared with "
    "the specification table. C11.4: dn / tr / ws take info.name, the flattened tier list (else the primary tracker) and "
    "url-list through quote/quote_plus whose safe set contains none of & = # % + space, with no filter, slice, set or "
    "sort between the metafile field and the URI. C11.5: get_magnet passes int(meta_version) and the option's choices are 0..3.")
RULE_TEXT = "one obligation per digest site, per prefix/hash pairing, per decision-table row, per URI parameter and per option row"

BAD_SAFE = set("&=#%+ ")
REORDER = {"builtins.sorted", "builtins.set", "builtins.frozenset", "builtins.reversed", "random.shuffle", "random.sample", "builtins.filter"}
# (meta version present, pieces present, requested version) -> (btih, btmh)
SPEC = {
    (False, True, 0): (True, False), (False, True, 1): (True, False),
    (True, False, 0): (False, True), (True, False, 2): (False, True),
    (True, True, 0): (True, True), (True, True, 3): (True, True),
    (True, True, 1): (True, False), (True, True, 2): (False, True),
}


def _info_terms_ok(t):
    """The term denotes <decoded metafile>['info'] (possibly through pyben.load)."""
    for x in t:
        if x[0] == "sub" and any(b[0] == "ext" and b[1] == "pyben.load" for b in x[1]) and any(i == ("const", "info") for i in x[2]):
            continue
        return False
    return bool(t)


def _field_of(t, allow_elem=0):
    """(container 'info'|'meta', key, elem depth) if the term set is <decoded>[key] / <decoded>['info'][key], through `allow_elem` iterations."""
    out = set()
    for x in t:
        depth = 0
        while x[0] == "elem":
            inner = x[1]
            if len(inner) != 1:
                return None
            x = next(iter(inner))
            depth += 1
        if x[0] != "sub":
            return None
        keys = [i[1] for i in x[2] if i[0] == "const"]
        if len(keys) != 1 or len(x[2]) != 1:
            return None
        base = x[1]
        if all(b[0] == "ext" and b[1] == "pyben.load" for b in base) and base:
            out.add(("meta", keys[0], depth))
        elif _info_terms_ok(base):
            out.add(("info", keys[0], depth))
        else:
            return None
    return out


def run(ctx):
    ctx.trust("hashlib.sha1/sha256 and pyben.dumps compute what their names say; decode->encode identity on canonical input gives the file's own info bytes")
    ctx.trust("urllib.parse.quote / quote_plus percent-encode every character outside their safe set (and quote_plus maps space to '+'), so unquote_plus inverts them")
    fn = ctx.prog.func("torrentfile.commands:magnet")
    flow = Flow(ctx.prog, ctx.res, stop_funcs=[fn])
    pt = PointsTo(ctx.prog, ctx.res, ctx.cg)
    g = C.cfg_of(fn)
    loads = [n for n in own_nodes(fn.node) if isinstance(n, ast.Call) and C.is_ext_call(ctx, n, fn, ("pyben.load",))]
    dumps = [n for n in own_nodes(fn.node) if isinstance(n, ast.Call) and C.is_ext_call(ctx, n, fn, ("pyben.dumps",))]
    if not loads:
        raise AnalysisError("anchor vanished: pyben.load in commands.magnet")
    if not dumps:
        # some other encoder feeds the digests: its output is not established to be the file's info bytes
        hashed = [n for n in own_nodes(fn.node) if isinstance(n, ast.Call) and C.is_ext_call(ctx, n, fn, ("hashlib.sha1", "hashlib.sha256")) and n.args]
        if not hashed:
            raise AnalysisError("anchor vanished: digest computation in commands.magnet")
        for h in hashed:
            t = flow.term(h.args[0], fn)
            enc = sorted({x[1] for x in walk_terms(t) if x[0] in ("ext",) and x[1].startswith("pyben")} | {"%s.%s" % ("pyben", x[1]) for x in walk_terms(t) if x[0] == "meth" and x[1] in ("encode",)})
            ctx.violated("C11.1", fn, "the digest is taken over the output of %s, not of pyben.dumps: only pyben.dumps(load(x)) is established to reproduce the file's info bytes (pyben's class-based "
                         "encoder, for instance, prefixes strings with their character count, not their UTF-8 byte count)" % (", ".join(enc) or norm(h.args[0])), h)
    # ---- C11.1
    roots = set()
    for l in loads:
        roots |= pt.pts(l, fn)
    kp = pt.key_paths(roots)
    reach = C.reach(ctx, [fn])
    muts = [(i, o) for (i, o) in pt.insertions_into(kp.keys()) if i.fn in reach and any(_rootfn(x) is fn for x in o)]
    for d in dumps:
        t = flow.term(d.args[0], fn) if d.args else frozenset()
        ctx.decide("C11.1", fn, _info_terms_ok(t), "the encoding hashed is pyben.dumps(<decoded metafile>['info'])",
                   "pyben.dumps is applied to %s, not to the decoded info dictionary" % show(t, maxdepth=3)[:120], d)
    if muts:
        for i, o in muts:
            ctx.violated("C11.1", i.fn, "the decoded metafile is modified before / while it is hashed (%s): the digest is no longer that of the file's info bytes" % i.how, i.node)
    else:
        ctx.holds("C11.1", fn, "nothing reachable from magnet (%d functions) inserts into or deletes from the decoded metafile" % len(reach),
                  "write set on the decoded metafile is empty")
    # ---- C11.2 prefix / hash pairing
    pairs = 0
    uri_var = None
    for n in own_nodes(fn.node):
        if isinstance(n, ast.BinOp) and isinstance(n.op, ast.Add):
            for side, other in ((n.left, n.right), (n.right, n.left)):
                cs = const_str(side)
                if cs and "urn:bt" in cs:
                    pairs += 1
                    t = flow.term(other, fn)
                    want = None
                    if cs.endswith("urn:btih:"):
                        want = "hashlib.sha1"
                    elif cs.endswith("urn:btmh:1220"):
                        want = "hashlib.sha256"
                    if want is None:
                        ctx.violated("C11.2", fn, "unknown or malformed hash URN prefix %r (must be 'urn:btih:' or 'urn:btmh:1220')" % cs, n)
                        continue
                    ok = bool(t)
                    why = ""
                    for x in t:
                        if not (x[0] == "meth" and x[1] == "hexdigest" and len(x[2]) >= 1):
                            ok, why = False, "not a hexdigest()"
                            break
                        for r in x[2]:
                            if not (r[0] == "ext" and r[1] == want):
                                ok, why = False, "hash function is %s" % (r[1] if r[0] == "ext" else r[0])
                                break
                            arg = r[2][0] if r[2] else frozenset()
                            if not (arg and all(a[0] == "ext" and a[1] == "pyben.dumps" and a[2] and _info_terms_ok(a[2][0]) for a in arg)):
                                ok, why = False, "hash input is not the bencoded info dictionary"
                    ctx.decide("C11.2", fn, ok, "%r is followed by %s(bencoded info).hexdigest()" % (cs, want),
                               "%r is followed by a value that is not %s(bencoded info).hexdigest(): %s" % (cs, want, why), n)
    ctx.floor("URN prefix sites", 2, pairs)
    # ---- C11.3 decision table
    decision_table(ctx, fn, g)
    # ---- C11.4 dn / tr / ws
    params(ctx, fn, flow)
    # ---- C11.5
    gm = ctx.prog.func("torrentfile.commands:get_magnet")
    calls = [n for n in own_nodes(gm.node) if isinstance(n, ast.Call) and any(t[0] == "pkg" and t[1] is fn for t in ctx.res.call_targets(n, gm))]
    if not calls:
        ctx.violated("C11.5", gm, "get_magnet does not call magnet")
    for c in calls:
        b = ctx.res.bind_args(fn, c, False)
        v = b.get("version")
        if v is None:
            ctx.violated("C11.5", gm, "get_magnet does not pass the requested version", c)
            continue
        t = flow.term(v, gm)
        ok = all(x[0] == "ext" and x[1] == "builtins.int" for x in t) and bool(t)
        src_ok = any(y[0] == "attr" and y[2] == "meta_version" for y in walk_terms(t))
        ctx.decide("C11.5", gm, ok and src_ok, "get_magnet passes int(namespace.meta_version)",
                   "the version handed to magnet is not int(namespace.meta_version): the string choice would never equal the integers magnet compares with", c)
    # every other caller in the package: the version it passes must be an integer (magnet compares it with 0..3 as integers;
    # a namespace attribute of an option without type=int is a *string* and matches none of them)
    for f in ctx.prog.functions.values():
        if f is gm or f is fn:
            continue
        for c in own_nodes(f.node):
            if not (isinstance(c, ast.Call) and any(t[0] == "pkg" and t[1] is fn for t in ctx.res.call_targets(c, f))):
                continue
            b = ctx.res.bind_args(fn, c, False)
            v = b.get("version")
            if v is None:
                ctx.holds("C11.5", f, "%s calls magnet with the default version (automatic)" % f.name, c)
                continue
            t = flow.term(v, f)
            ints = bool(t) and all((x[0] == "const" and isinstance(x[1], int) and not isinstance(x[1], bool)) or (x[0] == "ext" and x[1] == "builtins.int") for x in t)
            strs = [x for x in t if x[0] == "attr" or (x[0] == "const" and isinstance(x[1], str))]
            attrs = [x for x in t if x[0] == "attr"]
            if attrs and len(attrs) == len(t):
                prs = Parsers(ctx)
                rws = [r for p_ in prs.sub.values() for r in p_["rows"] if r.dest in {a[2] for a in attrs}]
                if rws and all("type" in r.kw and norm(r.kw["type"]) == "int" for r in rws):
                    ints, strs = True, []
            if ints:
                ctx.holds("C11.5", f, "%s passes an integer version to magnet" % f.name, c)
            elif strs:
                ctx.violated("C11.5", f, "%s passes `%s` to magnet as the version: a command-line value is a string, which equals none of the integers magnet compares the version with - "
                             "the request is then treated as 'v2 only' and a hybrid loses its btih" % (f.name, norm(v)), c)
            else:
                ctx.undecided("C11.5", f, "%s passes `%s` to magnet as the version; its type is not decided" % (f.name, norm(v)), c)
    pr = Parsers(ctx)
    rows = [r for p in pr.by_func("get_magnet") for r in p["rows"] if r.dest == "meta_version"]
    if not rows:
        ctx.violated("C11.5", gm, "the magnet sub-parser has no --meta-version option")
    for r in rows:
        ok = r.choices is not MISSING and r.choices is not None and sorted(r.choices) == ["0", "1", "2", "3"] and r.default in ("0", 0)
        ctx.decide("C11.5", ctx.prog.func("torrentfile.cli:execute"), ok, "magnet --meta-version: choices 0..3, default 0",
                   "magnet --meta-version choices/default are %r / %r (must be 0..3, default 0)" % (r.choices, None if r.default is MISSING else r.default), r.call)
    from .dynscan import dynamic_features
    dynamic_features(ctx, "C11.0")


def _rootfn(o):
    while o.kind == "loadedchild":
        o = o.src[0]
    return o.fn


def decision_table(ctx, fn, g):
    ver_param = "version"
    if ver_param not in fn.params:
        ctx.undecided("C11.3", fn, "parameter 'version' vanished")
        return
    lits = {x.value for x in ast.walk(fn.node) if isinstance(x, ast.Constant) and isinstance(x.value, str)}
    if not (any("urn:btih:" in x for x in lits) and any("urn:btmh:" in x for x in lits)):
        # the exact-topic prefixes are not written in this function (a table / helper emits them): the row-by-row trace of
        # the statements of magnet() has nothing to observe
        ctx.undecided("C11.3", fn, "the urn:btih / urn:btmh topics are not emitted by statements of magnet() itself; which topics a version request yields is not decided")
        return
    # the row trace observes topics and separators as they are concatenated to a string variable (`uri += "xt=..."`); topics
    # collected in a container and joined later are outside what it can read
    for st in own_nodes(fn.node):
        if isinstance(st, ast.stmt) and not isinstance(st, (ast.If, ast.For, ast.While, ast.With, ast.Try, ast.FunctionDef)) \
                and any(isinstance(x, ast.Constant) and isinstance(x.value, str) and "urn:bt" in x.value for x in ast.walk(st)):
            plain = (isinstance(st, ast.AugAssign) and isinstance(st.target, ast.Name) and isinstance(st.op, ast.Add)) or \
                    (isinstance(st, ast.Assign) and len(st.targets) == 1 and isinstance(st.targets[0], ast.Name) and isinstance(st.value, (ast.BinOp, ast.Constant, ast.JoinedStr)))
            if not plain and isinstance(st, ast.Expr) and _topic_list_append(st) in topic_lists(fn) and not C.in_loop(ctx, fn, st):
                plain = True        # collected in a list that is joined with '&' once: modelled by the row trace below
            if not plain:
                ctx.undecided("C11.3", fn, "the exact topics are not appended to the URI by plain string concatenation (`%s`); which topics a version request yields is not decided" % norm(st)[:60], st)
                return
    # `if` statements that neither emit a topic / separator nor leave the function: whichever way they go, the row reads the same
    def observable(st):
        for x in ast.walk(st):
            if isinstance(x, (ast.Return, ast.Raise)):
                return True
            cs = const_str(x) if isinstance(x, ast.Constant) else None
            if cs and ("urn:bt" in cs or cs == "&" or "&dn=" in cs):
                return True
        return False
    idle_tests = set()
    for st in own_nodes(fn.node):
        if isinstance(st, ast.If) and not any(observable(b) for b in st.body + st.orelse):
            for x in ast.walk(st.test):
                idle_tests.add(x)
    rows = 0
    tlists = topic_lists(fn)
    for (mv, pc, ver), (want_ih, want_mh) in sorted(SPEC.items()):
        env = {}
        emitted = []

        lists = {}

        def kind_of(e):
            for c in ast.walk(e):
                cs = const_str(c)
                if cs and "urn:btih:" in cs:
                    return "btih"
                if cs and "urn:btmh:" in cs:
                    return "btmh"
            return "other"

        def visit(n):
            a = n.ast
            if n.kind == "stmt" and isinstance(a, ast.Assign) and len(a.targets) == 1 and isinstance(a.targets[0], ast.Name):
                if isinstance(a.value, ast.Constant):
                    env[a.targets[0].id] = a.value.value
                elif isinstance(a.value, (ast.Compare, ast.BoolOp, ast.UnaryOp)) and C.eval3(a.value, atom) is not None:
                    env[a.targets[0].id] = C.eval3(a.value, atom)       # has_v2 = "meta version" in info
                else:
                    env.pop(a.targets[0].id, None)
                if a.targets[0].id in tlists and isinstance(a.value, ast.List) and not a.value.elts:
                    lists[a.targets[0].id] = []
                    return
            if n.kind == "stmt" and isinstance(a, ast.Expr) and _topic_list_append(a) in tlists:
                lists.setdefault(_topic_list_append(a), []).append(kind_of(a.value.args[0]))
                return
            if n.kind == "stmt" and isinstance(a, (ast.AugAssign, ast.Assign)):
                joined = [c for c in ast.walk(a.value) if _amp_join(c) in tlists]
                if joined:
                    # "&".join(topics): the collected topics, in order, separated by one '&' each
                    items = lists.get(_amp_join(joined[0]), [])
                    for i_, it_ in enumerate(items):
                        if i_:
                            emitted.append("&")
                        emitted.append(it_)
                    for c in ast.walk(a.value):
                        cs = const_str(c)
                        if cs and "&dn=" in cs:
                            emitted.append("dn")
                    return
                for c in ast.walk(a.value):
                    cs = const_str(c)
                    if cs and "urn:btih:" in cs:
                        emitted.append("btih")
                    elif cs and "urn:btmh:" in cs:
                        emitted.append("btmh")
                    elif cs == "&" and isinstance(a, ast.AugAssign):
                        emitted.append("&")
                    elif cs and "&dn=" in cs:
                        emitted.append("dn")

        def atom(x):
            if isinstance(x, ast.Compare) and len(x.ops) == 1:
                l, op, r = x.left, x.ops[0], x.comparators[0]
                ls = const_str(l)
                if ls in ("meta version", "pieces") and isinstance(op, (ast.In, ast.NotIn)):
                    val = mv if ls == "meta version" else pc
                    return val if isinstance(op, ast.In) else (not val)
                if ls is not None and isinstance(op, (ast.In, ast.NotIn)):
                    return isinstance(op, ast.NotIn)      # optional top-level keys: absent
                if isinstance(l, ast.Name) and l.id == ver_param:
                    try:
                        rv = ast.literal_eval(r)
                    except Exception:
                        return None
                    try:
                        if isinstance(op, ast.In):
                            return ver in rv
                        if isinstance(op, ast.NotIn):
                            return ver not in rv
                        if isinstance(op, ast.Eq):
                            return ver == rv
                        if isinstance(op, ast.NotEq):
                            return ver != rv
                        if isinstance(op, ast.Lt):
                            return ver < rv
                        if isinstance(op, ast.LtE):
                            return ver <= rv
                        if isinstance(op, ast.Gt):
                            return ver > rv
                        if isinstance(op, ast.GtE):
                            return ver >= rv
                    except TypeError:
                        return None
            if isinstance(x, ast.Name):
                if x.id in env:
                    return bool(env[x.id])
                if x.id == ver_param:
                    return bool(ver)
            if isinstance(x, ast.Call) and C.is_ext_call(ctx, x, fn, ("os.path.exists", "os.path.isfile")):
                return True
            if x in idle_tests:
                return True
            return None
        label = "meta version %s, pieces %s, version=%d" % ("present" if mv else "absent", "present" if pc else "absent", ver)
        rows += 1
        try:
            visited, term = C.trace(g, g.entry, atom, visit=visit)
        except C.Undetermined as exc:
            ctx.undecided("C11.3", fn, "row [%s]: %s" % (label, exc), "magnet row: " + label)
            continue
        got_ih, got_mh = "btih" in emitted, "btmh" in emitted
        problems = []
        if term != "exit":
            problems.append("raises instead of returning a URI")
        if (got_ih, got_mh) != (want_ih, want_mh):
            problems.append("emits %s, specification: %s" % (
                "+".join(x for x, y in (("btih", got_ih), ("btmh", got_mh)) if y) or "no xt", "+".join(x for x, y in (("btih", want_ih), ("btmh", want_mh)) if y)))
        if emitted.count("btih") > 1 or emitted.count("btmh") > 1:
            problems.append("an xt parameter is emitted twice")
        if got_ih and got_mh:
            seq = [e for e in emitted if e in ("btih", "btmh", "&")]
            if seq not in (["btih", "&", "btmh"], ["btmh", "&", "btih"]):
                problems.append("the two xt parameters are not separated by exactly one '&' (%s)" % seq)
        elif "&" in [e for e in emitted if e != "dn"][:emitted.index("dn") if "dn" in emitted else None]:
            problems.append("stray '&' before the only xt parameter")
        ctx.decide("C11.3", fn, not problems, "row [%s]: emits %s as specified" % (label, "+".join(e for e in emitted if e != "dn")),
                   "row [%s]: %s" % (label, "; ".join(problems)), "magnet row: " + label)
    ctx.floor("magnet decision-table rows", 8, rows)


def _topic_list_append(st):
    """`name.append(E)` as a statement: the name, else None."""
    v = st.value if isinstance(st, ast.Expr) else None
    if isinstance(v, ast.Call) and isinstance(v.func, ast.Attribute) and v.func.attr == "append" and isinstance(v.func.value, ast.Name) and len(v.args) == 1 and not v.keywords:
        return v.func.value.id
    return None


def _amp_join(c):
    """`"&".join(name)`: the name, else None."""
    if isinstance(c, ast.Call) and isinstance(c.func, ast.Attribute) and c.func.attr == "join" and const_str(c.func.value) == "&" and len(c.args) == 1 and isinstance(c.args[0], ast.Name):
        return c.args[0].id
    return None


def topic_lists(fn):
    """Locals used as a list of URI parts: defined once as `[]`, grown only by `name.append(E)` statements, read only by one
    `"&".join(name)`."""
    out = set()
    names = {n.id for n in own_nodes(fn.node) if isinstance(n, ast.Name)}
    for nm in names:
        uses = [n for n in own_nodes(fn.node) if isinstance(n, ast.Name) and n.id == nm]
        stores = [n for n in uses if isinstance(n.ctx, ast.Store)]
        defs = [st for st in own_nodes(fn.node) if isinstance(st, ast.Assign) and len(st.targets) == 1 and isinstance(st.targets[0], ast.Name) and st.targets[0].id == nm]
        if len(stores) != 1 or len(defs) != 1 or not (isinstance(defs[0].value, ast.List) and not defs[0].value.elts):
            continue
        apps = [st for st in own_nodes(fn.node) if isinstance(st, ast.Expr) and _topic_list_append(st) == nm]
        joins = [c for c in own_nodes(fn.node) if _amp_join(c) == nm]
        loads = [n for n in uses if isinstance(n.ctx, ast.Load)]
        if apps and len(joins) == 1 and len(loads) == len(apps) + 1:
            out.add(nm)
    return out


def _fold_str(ts):
    """The string a term set denotes if it is a constant or a concatenation of constants, else None."""
    if len(ts) != 1:
        return None
    t = next(iter(ts))
    if t[0] == "const" and isinstance(t[1], str):
        return t[1]
    if t[0] == "op" and t[1] == "Add" and len(t[2]) == 2:
        a, b = _fold_str(t[2][0]), _fold_str(t[2][1])
        if a is not None and b is not None:
            return a + b
    return None


QUOTERS = ("urllib.parse.quote_plus", "urllib.parse.quote")
URI_FIELDS = {"name": "&dn=", "announce-list": "&tr=", "announce": "&tr=", "url-list": "&ws="}


def uri_field_occurrences(terms):
    """[(field key, prefix | None, quoted, bad safe set | None, transformed-by | None, foreign base | None)] for every place a
    metafile field enters the URI term."""
    out = []
    PASS_THROUGH = {"builtins.list", "builtins.tuple", "builtins.iter", "itertools.chain", "itertools.chain.from_iterable", "builtins.map", "builtins.str"}

    def is_quoter_ref(ts):
        return any((x[0] in ("global", "ext", "attr") and str(x[-1] if x[0] != "ext" else x[1]).split(".")[-1] in ("quote_plus", "quote")) for x in ts)

    def walk(ts, prefix, quoted, bad, depth=0, tr=None):
        if depth > 40:
            return
        for t in ts:
            k = t[0]
            if k == "sub":
                keys = [i[1] for i in t[2] if i[0] == "const"]
                if len(keys) == 1 and keys[0] in URI_FIELDS and any(x[0] == "ext" and x[1] == "pyben.load" for x in walk_terms(t[1])):
                    base = t[1] if keys[0] != "name" else frozenset(b for x in t[1] if x[0] == "sub" for b in x[1]) or t[1]
                    foreign = [x for x in base if not (x[0] == "ext" and x[1] == "pyben.load")]
                    out.append((keys[0], prefix, quoted, bad, tr, show(frozenset(foreign), maxdepth=2)[:60] if foreign else None))
                    continue
                walk(t[1], prefix, quoted, bad, depth + 1, tr)
            elif k == "meth" and t[1] == "get" and len(t) > 3 and t[3] and [i[1] for i in t[3][0] if i[0] == "const"] \
                    and [i[1] for i in t[3][0] if i[0] == "const"][0] in URI_FIELDS and any(x[0] == "ext" and x[1] == "pyben.load" for x in walk_terms(t[2])):
                # meta.get("url-list", ()) reads the field like meta["url-list"] does
                key = [i[1] for i in t[3][0] if i[0] == "const"][0]
                foreign = [x for x in t[2] if not (x[0] == "ext" and x[1] == "pyben.load")] if key != "name" else []
                out.append((key, prefix, quoted, bad, tr, show(frozenset(foreign), maxdepth=2)[:60] if foreign else None))
            elif k == "op" and t[1] == "Add" and len(t[2]) == 2:
                p = _fold_str(t[2][0])
                if p is not None and any(p.endswith(x) for x in ("&dn=", "&tr=", "&ws=")):
                    walk(t[2][1], p[-4:], quoted, bad, depth + 1, tr)
                else:
                    walk(t[2][0], prefix, quoted, bad, depth + 1, tr)
                    walk(t[2][1], prefix, quoted, bad, depth + 1, tr)
            elif k == "ext" and t[1] in QUOTERS:
                safe = None
                for nm, v in t[3]:
                    if nm == "safe":
                        safe = _fold_str(v) if _fold_str(v) is not None else "?"
                if len(t[2]) > 1:
                    safe = _fold_str(t[2][1]) if _fold_str(t[2][1]) is not None else "?"
                b2 = safe if (safe == "?" or (safe and set(safe) & BAD_SAFE)) else bad
                if t[2]:
                    walk(t[2][0], prefix, True, b2, depth + 1, tr)
            elif k == "ext" and t[1] == "builtins.map" and len(t[2]) >= 2:
                q = quoted or is_quoter_ref(t[2][0])
                for a in t[2][1:]:
                    walk(a, prefix, q, bad, depth + 1, tr)
            elif quoted and ((k == "ext" and t[1] not in PASS_THROUGH) or k == "meth" or (k == "op" and t[1] != "Add")):
                what = t[1]
                for part in t[1:]:
                    for sub in ([part] if isinstance(part, frozenset) else [x for x in part if isinstance(x, frozenset)] if isinstance(part, tuple) else []):
                        walk(sub, prefix, quoted, bad, depth + 1, tr or str(what))
            elif k == "inloop":
                walk(t[1], prefix, quoted, bad, depth + 1)       # t[2] is the iterable that drives the loop, not content
            elif k == "fstr":
                cur = prefix
                for part in t[1]:
                    p = _fold_str(part)
                    if p is not None:
                        cur = p[-4:] if any(p.endswith(x) for x in ("&dn=", "&tr=", "&ws=")) else cur
                    else:
                        walk(part, cur, quoted, bad, depth + 1, tr)
            else:
                for part in t[1:]:
                    for sub in ([part] if isinstance(part, frozenset) else [x for x in part if isinstance(x, frozenset)] if isinstance(part, tuple) else []):
                        walk(sub, prefix, quoted, bad, depth + 1, tr)
                    if isinstance(part, tuple):
                        for x in part:
                            if isinstance(x, tuple) and len(x) == 2 and isinstance(x[1], frozenset):
                                walk(x[1], prefix, quoted, bad, depth + 1, tr)
    walk(terms, None, False, None)
    return out


def params(ctx, fn, flow):
    """C11.4 on the origin term of the returned URI (helpers are expanded by the flow analysis): every place where the
    metafile's name, tracker URLs or web seeds enter the string is percent-quoted and follows the right parameter name."""
    ret = [n for n in own_nodes(fn.node) if isinstance(n, ast.Return) and n.value is not None]
    t = frozenset()
    for r in ret:
        t |= flow.term(r.value, fn)
    occ = uri_field_occurrences(t)
    by_key = {}
    for key, prefix, quoted, bad, tr, foreign in occ:
        by_key.setdefault(key, []).append((prefix, quoted, bad, tr, foreign))
    label_of = {"name": "info.name", "announce-list": "each URL of announce-list (tier by tier)", "announce": "the primary tracker", "url-list": "each element of url-list"}
    for key in ("name", "announce-list", "announce", "url-list"):
        want = URI_FIELDS[key]
        lst = by_key.get(key, [])
        site = "URI field " + key
        if not lst:
            if key == "announce" and by_key.get("announce-list"):
                ctx.holds("C11.4", fn, "trackers are taken from announce-list", site, nontrivial=False)
            else:
                ctx.violated("C11.4", fn, "%s never reaches the returned URI (the %r parameter is missing or built from something else)" % (label_of[key], want), site)
            continue
        unq = [x for x in lst if not x[1]]
        badsafe = [x for x in lst if x[2]]
        transformed = [x for x in lst if x[3]]
        foreign = [x for x in lst if x[4]]
        if foreign:
            ctx.violated("C11.4", fn, "%s is (also) taken from %s, not only from the metafile read from disk" % (label_of[key], foreign[0][4]), site)
            continue
        if transformed:
            ctx.violated("C11.4", fn, "%r carries %s(%s), not the value itself: it no longer decodes to what the metafile says" % (want, transformed[0][3], label_of[key]), site)
            continue
        wrongp = [x for x in lst if x[0] is not None and x[0] != want]
        nop = [x for x in lst if x[0] is None]
        if unq:
            ctx.violated("C11.4", fn, "the value after %r (%s) is not passed through urllib.parse.quote / quote_plus: '&', '=', '#', '%%', '+' or spaces in it corrupt the URI" % (want, label_of[key]), site)
        elif badsafe:
            ctx.violated("C11.4", fn, "quote safe set %r lets a reserved character through after %r" % (badsafe[0][2], want), site)
        elif wrongp:
            ctx.violated("C11.4", fn, "%s is emitted after %r, expected %r" % (label_of[key], wrongp[0][0], want), site)
        elif nop:
            ctx.undecided("C11.4", fn, "%s reaches the URI quoted, but the parameter name in front of it could not be established" % label_of[key], site)
        else:
            ctx.holds("C11.4", fn, "%r carries quote(%s)" % (want, label_of[key]), site)
    ctx.floor("metafile fields entering the URI", 3, len(by_key))
    # no filtering / reordering between the metafile lists and the URI
    problems = 0
    for n in own_nodes(fn.node):
        if isinstance(n, (ast.ListComp, ast.GeneratorExp, ast.SetComp)):
            # only comprehensions that iterate over the metafile's URL lists matter (a table of topics is not one)
            def over_urls(e):
                t_ = flow.term(e, fn)
                return any(x[0] == "sub" and any(i[0] == "const" and i[1] in ("announce-list", "url-list", "announce", "httpseeds") for i in x[2]) for x in walk_terms(t_)) or \
                    any(x[0] == "meth" and x[1] == "get" and len(x) > 3 and x[3] and any(i[0] == "const" and i[1] in ("announce-list", "url-list", "announce") for i in x[3][0]) for x in walk_terms(t_))
            if not any(over_urls(gen.iter) for gen in n.generators):
                continue
            if isinstance(n, ast.SetComp):
                problems += 1
                ctx.violated("C11.4", fn, "a set comprehension loses order / duplicates of URLs", n)
            for gen in n.generators:
                if gen.ifs:
                    problems += 1
                    ctx.violated("C11.4", fn, "URLs are filtered before they reach the URI", n)
        elif isinstance(n, ast.Call):
            for d in C.ext_name(ctx, n, fn):
                if d in REORDER and n.args and any(x[0] == "ext" and x[1] == "pyben.load" for x in walk_terms(flow.term(n.args[0], fn))):
                    problems += 1
                    ctx.violated("C11.4", fn, "%s reorders or drops URLs on their way into the URI" % d, n)
        elif isinstance(n, ast.Subscript) and isinstance(n.slice, ast.Slice) and isinstance(n.ctx, ast.Load):
            t = flow.term(n.value, fn)
            if any(x[0] == "ext" and x[1] == "pyben.load" for x in walk_terms(t)):
                problems += 1
                ctx.violated("C11.4", fn, "a slice drops part of a metafile list", n)
    if not problems:
        ctx.holds("C11.4", fn, "no filter, slice, set or sort between the metafile's lists and the URI (order and multiplicity preserved)", "order preservation")


MUTANTS = [
    {"name": "btih-sha256", "file": "torrentfile/commands.py", "expect": "violated", "rule": "C11.2", "canary": True, "quick": True,
     "what": "btih built from sha256", "edits": [("        infohash = sha1(bencoded_info).hexdigest()  # nosec", "        infohash = sha256(bencoded_info).hexdigest()  # nosec")]},
    {"name": "btmh-missing-1220", "file": "torrentfile/commands.py", "expect": "violated", "rule": "C11.2", "canary": True,
     "what": "multihash prefix without 1220", "edits": [('"xt=urn:btmh:1220"', '"xt=urn:btmh:"')]},
    {"name": "hash-of-whole-meta", "file": "torrentfile/commands.py", "expect": "violated", "rule": "C11", "canary": True,
     "what": "hash over the whole metafile", "edits": [("    bencoded_info = pyben.dumps(info_dict)", "    bencoded_info = pyben.dumps(meta)")]},
    {"name": "info-modified-before-hash", "file": "torrentfile/commands.py", "expect": "violated", "rule": "C11.1", "canary": True,
     "what": "private flag dropped before hashing", "edits": [("    bencoded_info = pyben.dumps(info_dict)", "    info_dict.pop(\"source\", None)\n    bencoded_info = pyben.dumps(info_dict)")]},
    {"name": "hybrid-v2-request-emits-both", "file": "torrentfile/commands.py", "expect": "violated", "rule": "C11.3", "canary": True, "quick": True,
     "what": "version 2 on hybrid still emits btih", "edits": [("(version in [1, 3, 0]", "(version in [1, 2, 3, 0]")]},
    {"name": "hybrid-v1-request-emits-btmh", "file": "torrentfile/commands.py", "expect": "violated", "rule": "C11.3", "canary": True,
     "what": "version 1 on hybrid still emits btmh", "edits": [('    if "meta version" in info_dict and version != 1:', '    if "meta version" in info_dict:')]},
    {"name": "auto-hybrid-only-v1", "file": "torrentfile/commands.py", "expect": "violated", "rule": "C11.3", "canary": True,
     "what": "automatic mode on hybrid emits only btih", "edits": [('    if "meta version" in info_dict and version != 1:', '    if "meta version" in info_dict and version > 1:')]},
    {"name": "missing-ampersand", "file": "torrentfile/commands.py", "expect": "violated", "rule": "C11.3", "canary": True,
     "what": "no separator between the two xt", "edits": [('        if v1:\n            magnet += "&"\n', '')]},
    {"name": "dn-unquoted", "file": "torrentfile/commands.py", "expect": "violated", "rule": "C11.4", "canary": True,
     "what": "name not quoted", "edits": [('    magnet += "&dn=" + quote_plus(info_dict["name"])', '    magnet += "&dn=" + info_dict["name"]')]},
    {"name": "tr-safe-ampersand", "file": "torrentfile/commands.py", "expect": "violated", "rule": "C11.4", "canary": True,
     "what": "tracker quoting keeps & and =", "edits": [('        announce_args = ["&tr=" + quote_plus(meta["announce"])]', '        announce_args = ["&tr=" + quote_plus(meta["announce"], safe=":/&=")]')]},
    {"name": "tr-only-first-tier", "file": "torrentfile/commands.py", "expect": "violated", "rule": "C11.4", "canary": True,
     "what": "only the first tier's trackers", "edits": [('for urllist in meta["announce-list"]\n', 'for urllist in meta["announce-list"][:1]\n')]},
    {"name": "tr-sorted", "file": "torrentfile/commands.py", "expect": "violated", "rule": "C11.4", "canary": True,
     "what": "trackers sorted", "edits": [('            for url in urllist\n', '            for url in sorted(urllist)\n')]},
    {"name": "ws-from-httpseeds", "file": "torrentfile/commands.py", "expect": "violated", "rule": "C11.4", "canary": True,
     "what": "ws taken from httpseeds", "edits": [('"&ws=" + quote_plus(urllist) for urllist in meta["url-list"]', '"&ws=" + quote_plus(urllist) for urllist in meta["httpseeds"]')]},
    {"name": "ws-dedup-filter", "file": "torrentfile/commands.py", "expect": "violated", "rule": "C11.4", "canary": True,
     "what": "web seeds filtered", "edits": [('"&ws=" + quote_plus(urllist) for urllist in meta["url-list"]', '"&ws=" + quote_plus(urllist) for urllist in meta["url-list"] if urllist.startswith("http")')]},
    {"name": "get-magnet-string-version", "file": "torrentfile/commands.py", "expect": "violated", "rule": "C11.5", "canary": True,
     "what": "version passed as string", "edits": [("    version = int(namespace.meta_version)", "    version = namespace.meta_version")]},
    {"name": "magnet-choices-without-3", "file": "torrentfile/cli.py", "expect": "violated", "rule": "C11.5", "canary": True,
     "what": "choices lack 3", "edits": [('        choices=["0", "1", "2", "3"],', '        choices=["0", "1", "2"],')]},
    {"name": "benign-quote-instead-of-quote-plus", "file": "torrentfile/commands.py", "expect": "clean",
     "what": "quote(safe='') instead of quote_plus", "edits": [("from urllib.parse import quote_plus", "from urllib.parse import quote_plus, quote"), ('    magnet += "&dn=" + quote_plus(info_dict["name"])', '    magnet += "&dn=" + quote(info_dict["name"], safe="")')]},
    {"name": "benign-version-test-rewritten", "file": "torrentfile/commands.py", "expect": "clean",
     "what": "equivalent condition", "edits": [("(version in [1, 3, 0]", "(version != 2")]},
]
QUICK_CANARIES = True

CLAIM = {
    "text": "Decided for all metafiles and version requests: the digests are provably taken over the bencoding of the decoded, unmodified info dictionary and paired with the right URN prefix; "
            "the xt decision table is evaluated on the code's own conditions for all eight satisfiable rows; dn/tr/ws take the right fields, completely and in order, through percent-encoding "
            "whose safe set excludes every reserved character. The numeric value of the hash is hashlib's and pyben's responsibility.",
    "note": "Trusted: hashlib, pyben.dumps∘load identity on the file's info bytes (canonical input), urllib.parse quoting. A url-list stored as a single string (BEP 19 allows it) would be iterated "
            "character-wise: observed, outside the property's quantifier (lists), not armed.",
    "technique": "origin-term data-flow facts, points-to write set, CFG trace of the decision table over atomic predicates, extracted argparse table",
    "design_ref": "DESIGN.md section 4, C11; appendix D.3",
}
