"""Field-sensitive (constant keys) inclusion-based points-to analysis for dictionaries and lists.

Objects are creation sites. It answers: which dictionary objects are part of the value dumped at a
sink, under which key paths, and which statements insert into which objects.
Flow- and context-insensitive (complete, terminating); the rules add local flow-sensitivity
(reaching definitions / dominance) where order matters.
"""
import ast

from .loader import own_nodes
from .resolve import const_str

COPY_FUNCS = {"builtins.dict", "builtins.list", "builtins.sorted", "builtins.tuple", "builtins.reversed",
              "builtins.set", "builtins.frozenset", "copy.copy", "copy.deepcopy", "collections.OrderedDict"}
VIEW_METHODS = {"items", "values", "keys", "copy"}
LOADERS = {"pyben.load", "pyben.loads", "json.load", "json.loads"}
STAR = "*"
ELEM = "[]"


class Obj:
    __slots__ = ("kind", "node", "fn", "mod", "sorted", "src", "label", "deep")

    def __init__(self, kind, node, fn, mod, label=""):
        self.kind = kind      # dict | list | copy | loaded | loadedchild | bytes | other
        self.node = node
        self.fn = fn
        self.mod = mod
        self.sorted = False   # copy made by dict(sorted(X.items())) with default ordering
        self.deep = False     # ... applied recursively to nested dictionaries
        self.src = None       # for copies: the expression copied
        self.label = label

    def where(self):
        return "%s line %s" % (self.fn.qual if self.fn else (self.mod.name if self.mod else "?"), getattr(self.node, "lineno", "?"))

    def __repr__(self):
        try:
            t = ast.unparse(self.node)[:40]
        except Exception:
            t = self.label
        return "<%s %s @%s>" % (self.kind, t, self.where())


class Insertion:
    """A statement that inserts a key (or element) into a container."""
    __slots__ = ("node", "fn", "base", "key", "value", "how")

    def __init__(self, node, fn, base, key, value, how):
        self.node = node
        self.fn = fn
        self.base = base      # base expression
        self.key = key        # key expression or None
        self.value = value
        self.how = how        # 'store' | 'update' | 'setdefault' | 'append' | 'extend' | 'aug' | 'del'


def _plain_sorted_items(res, call, fn, mod):
    """dict(sorted(X.items())) / dict(sorted(list(X.items())))  with default ordering -> X expr, else None."""
    if not (isinstance(call, ast.Call) and len(call.args) == 1 and not call.keywords):
        return None
    if not any(k == ("ext", "builtins.dict") or k == ("ext", "collections.OrderedDict") for k in res.kinds(call.func, fn, mod)):
        return None
    inner = call.args[0]
    return _sorted_items_source(res, inner, fn, mod)


def _sorted_items_source(res, inner, fn, mod):
    """sorted(X.items()) / sorted(list(X.items())) with default ordering -> X."""
    if not (isinstance(inner, ast.Call) and len(inner.args) == 1 and not inner.keywords
            and any(k == ("ext", "builtins.sorted") for k in res.kinds(inner.func, fn, mod))):
        return None
    x = inner.args[0]
    if isinstance(x, ast.Call) and len(x.args) == 1 and not x.keywords and any(
            k == ("ext", "builtins.list") or k == ("ext", "builtins.tuple") for k in res.kinds(x.func, fn, mod)):
        x = x.args[0]
    if isinstance(x, ast.Call) and isinstance(x.func, ast.Attribute) and x.func.attr == "items" and not x.args:
        return x.func.value
    return None


def sorted_copy_info(res, expr, fn, mod, _seen=None):
    """(source expr, deep) if `expr` builds a dictionary with the keys of `source` in ascending order:

      dict(sorted(X.items()))                                  -> (X, False)
      {k: v for k, v in sorted(X.items())}                     -> (X, False)
      {k: g(v) [if ... else v] for k, v in sorted(X.items())}  -> (X, True) when g sorts its argument the same way (recursion)
      h(X)  where every return of the package function h is a sorted copy of its only parameter -> (X, deep of h)
    else None."""
    _seen = _seen or set()
    x = _plain_sorted_items(res, expr, fn, mod)
    if x is not None:
        return x, False
    if isinstance(expr, ast.DictComp) and len(expr.generators) == 1 and not expr.generators[0].ifs:
        g = expr.generators[0]
        # {k: X[k] for k in sorted(X)}  /  sorted(X.keys())  /  sorted(list(X))
        if isinstance(g.target, ast.Name) and isinstance(expr.key, ast.Name) and expr.key.id == g.target.id \
                and isinstance(g.iter, ast.Call) and len(g.iter.args) == 1 and not g.iter.keywords \
                and any(k == ("ext", "builtins.sorted") for k in res.kinds(g.iter.func, fn, mod)):
            x = g.iter.args[0]
            while isinstance(x, ast.Call) and ((isinstance(x.func, ast.Name) and x.func.id in ("list", "tuple") and len(x.args) == 1) or
                                               (isinstance(x.func, ast.Attribute) and x.func.attr == "keys" and not x.args)):
                x = x.args[0] if isinstance(x.func, ast.Name) else x.func.value
            v = expr.value
            if isinstance(v, ast.Subscript) and isinstance(v.slice, ast.Name) and v.slice.id == g.target.id and ast.unparse(v.value) == ast.unparse(x):
                return x, False
        src = _sorted_items_source(res, g.iter, fn, mod)
        t = g.target
        if src is not None and isinstance(t, ast.Tuple) and len(t.elts) == 2 and all(isinstance(e, ast.Name) for e in t.elts) \
                and isinstance(expr.key, ast.Name) and expr.key.id == t.elts[0].id:
            vname = t.elts[1].id
            v = expr.value
            if isinstance(v, ast.Name) and v.id == vname:
                return src, False
            branches = [v.body, v.orelse] if isinstance(v, ast.IfExp) else [v]
            ok = True
            deep = False
            for b in branches:
                if isinstance(b, ast.Name) and b.id == vname:
                    continue
                if isinstance(b, ast.Call) and len(b.args) == 1 and isinstance(b.args[0], ast.Name) and b.args[0].id == vname and not b.keywords:
                    tg = [k[1] for k in res.kinds(b.func, fn, mod) if k[0] == "func"]
                    if tg and all(t_ is fn or _function_sorts(res, t_, _seen) for t_ in tg):
                        deep = True
                        continue
                ok = False
            if ok:
                return src, deep
        return None
    if isinstance(expr, ast.Call) and len(expr.args) == 1 and not expr.keywords:
        tg = [k[1] for k in res.kinds(expr.func, fn, mod) if k[0] == "func"]
        others = [k for k in res.kinds(expr.func, fn, mod) if k[0] not in ("func",)]
        if tg and not others:
            infos = [_function_sorts(res, t_, _seen) for t_ in tg]
            if all(infos):
                return expr.args[0], any(i[1] for i in infos)
    return None


def _function_sorts(res, f, seen):
    """(True, deep) if every return of package function f is a sorted copy of its single (non-self) parameter."""
    if f in seen:
        return (True, True)       # recursive use: assumed while being established (co-induction on the same definition)
    seen = seen | {f}
    params = [p for p in f.params if p != f.self_name]
    if len(params) != 1:
        return None
    rets = [n.value for n in own_nodes(f.node) if isinstance(n, ast.Return)]
    if not rets or any(r is None for r in rets):
        return None
    deep = False
    for r in rets:
        info = sorted_copy_info(res, r, f, f.module, seen)
        if info is None:
            return None
        src, d = info
        if not (isinstance(src, ast.Name) and src.id == params[0]):
            return None
        deep = deep or d
    return (True, deep)


def is_sorted_items_copy(res, call, fn, mod):
    """Source expression X if `call` builds a key-sorted copy of X (see sorted_copy_info), else None."""
    info = sorted_copy_info(res, call, fn, mod)
    return info[0] if info else None


def _norm(e):
    return ast.unparse(e) if e is not None else ""


def inplace_rekey(loop):
    """`for k in sorted(D): D[k] = D.pop(k)` - every key is moved to the end in ascending order: the same object ends up
    with its keys sorted.  Returns the expression D, else None."""
    if not (isinstance(loop, ast.For) and isinstance(loop.target, ast.Name) and not loop.orelse and len(loop.body) == 1):
        return None
    it = loop.iter
    if not (isinstance(it, ast.Call) and isinstance(it.func, ast.Name) and it.func.id == "sorted" and len(it.args) == 1 and not it.keywords):
        return None
    d = it.args[0]
    while isinstance(d, ast.Call) and ((isinstance(d.func, ast.Name) and d.func.id in ("list", "tuple") and len(d.args) == 1) or
                                        (isinstance(d.func, ast.Attribute) and d.func.attr == "keys" and not d.args)):
        d = d.args[0] if isinstance(d.func, ast.Name) else d.func.value
    st = loop.body[0]
    k = loop.target.id
    if not (isinstance(st, ast.Assign) and len(st.targets) == 1 and isinstance(st.targets[0], ast.Subscript) and _norm(st.targets[0].value) == _norm(d)
            and isinstance(st.targets[0].slice, ast.Name) and st.targets[0].slice.id == k):
        return None
    v = st.value
    if isinstance(v, ast.Call) and isinstance(v.func, ast.Attribute) and v.func.attr == "pop" and _norm(v.func.value) == _norm(d) and len(v.args) == 1 \
            and isinstance(v.args[0], ast.Name) and v.args[0].id == k:
        return d
    return None


class PointsTo:
    def __init__(self, prog, res, cg):
        self.prog = prog
        self.res = res
        self.cg = cg
        self.objs = {}        # id(node) -> Obj
        self.var = {}         # var key -> set(Obj)
        self.field = {}       # (Obj, key) -> set(Obj)
        self.insertions = []
        self.list_edits = []      # element removals (pop/remove/clear) and reorderings (sort/reverse) of lists
        self._ins_seen = set()
        self.changed = False
        self._family_root = {}
        self._index_attr_stores()
        self._solve()

    # ------------------------------------------------------------------ keys
    def _index_attr_stores(self):
        """class -> set of attribute names stored through self/cls in its own methods or class body."""
        self._stores = {}
        for c in self.prog.classes.values():
            names = set(c.class_assigns)
            for m in c.methods.values():
                sn = m.self_name
                if not sn:
                    continue
                for n in own_nodes(m.node):
                    if isinstance(n, ast.Attribute) and isinstance(n.ctx, (ast.Store, ast.Del)) \
                            and isinstance(n.value, ast.Name) and n.value.id == sn:
                        names.add(n.attr)
            self._stores[c] = names

    def attr_owners(self, cls, attr):
        """Classes that 'own' attribute attr of an instance of cls: the base-most class of the MRO storing it,
        else the storing subclasses, else cls."""
        key = (cls, attr)
        if key not in self._family_root:
            owners = []
            for c in reversed(self.prog.mro(cls)):
                if attr in self._stores.get(c, ()):
                    owners = [c]
                    break
            if not owners:
                owners = [c for c in self.prog.subclasses(cls) if attr in self._stores.get(c, ())]
            if not owners:
                owners = [cls]
            self._family_root[key] = [c.qual for c in owners]
        return self._family_root[key]

    def _obj(self, kind, node, fn, mod, label=""):
        o = self.objs.get(id(node))
        if o is None:
            o = Obj(kind, node, fn, mod, label)
            self.objs[id(node)] = o
        return o

    def _child(self, parent, key):
        depth = 0
        p = parent
        while p.kind == "loadedchild":
            depth += 1
            p = p.src[0]
        if depth >= 4:
            return parent      # summarise deeper levels of a decoded structure
        k = ("child", id(parent), key)
        o = self.objs.get(k)
        if o is None:
            o = Obj("loadedchild", parent.node, parent.fn, parent.mod, "%s[%r]" % (parent.label or "loaded", key))
            o.src = (parent, key)
            self.objs[k] = o
        return o

    def _add(self, store, key, objs):
        if not objs:
            return
        s = store.setdefault(key, set())
        n = len(s)
        s |= objs
        if len(s) != n:
            self.changed = True

    def getfield(self, o, key):
        """Objects stored under `key` of o (key None = any key)."""
        out = set()
        if o.kind in ("loaded", "loadedchild"):
            out.add(self._child(o, STAR if key is None else key))
        if key is None:
            for (oo, k), v in self.field.items():
                if oo is o:
                    out |= v
        else:
            out |= self.field.get((o, key), set())
            out |= self.field.get((o, STAR), set())
        if o.kind == "copy" and o.src is not None:
            for so in self._copy_sources(o):
                if so is not o:
                    out |= self.getfield_nocopy(so, key, {o})
        if o.kind == "dict" and isinstance(o.node, ast.Dict):
            sp = self.var.get(("spread", id(o.node)))
            if sp:
                explicit = {const_str(k2) for k2 in o.node.keys if k2 is not None and const_str(k2) is not None}
                for so in sp:
                    if key is None or key not in explicit:
                        got = self.getfield(so, key)
                        if key is None:
                            got = {c for c in got if not (c.kind == "loadedchild" and c.src[1] in explicit)}
                        out |= got
        return out

    def getfield_nocopy(self, o, key, seen):
        out = set()
        if o in seen:
            return out
        seen = seen | {o}
        if o.kind in ("loaded", "loadedchild"):
            out.add(self._child(o, STAR if key is None else key))
        if key is None:
            for (oo, k), v in self.field.items():
                if oo is o:
                    out |= v
        else:
            out |= self.field.get((o, key), set()) | self.field.get((o, STAR), set())
        if o.kind == "copy":
            for so in self._copy_sources(o):
                out |= self.getfield_nocopy(so, key, seen)
        return out

    def _copy_sources(self, o):
        return self.var.get(("copysrc", id(o.node)), set())

    def keys_of(self, o):
        ks = {k for (oo, k) in self.field if oo is o}
        if o.kind == "copy":
            for so in self._copy_sources(o):
                if so is not o:
                    ks |= {k for (oo, k) in self.field if oo is so}
        return ks

    def const_keys(self, key, fn):
        """[str] if the key expression is a string constant, or a local that iterates over a literal tuple / list of string
        constants (`for key in ("url-list", "httpseeds")`); None otherwise."""
        ck = const_str(key)
        if ck is not None:
            return [ck]
        if isinstance(key, ast.Name) and fn is not None:
            bl = self.res.bindings(fn).get(key.id, [])
            if len(bl) == 1 and bl[0][0] == "param" and key.id != fn.self_name and not getattr(self, "_ck_active", False):
                # a parameter: the constants it receives at every call site of the function (all of them must be readable)
                sites = [(c_, call_, b_) for c_, call_, b_ in self.res.callsites_of(fn) if c_ is not None]
                out = []
                self._ck_active = True
                try:
                    for c_, call_, b_ in sites:
                        a_ = b_.get(key.id)
                        ks = self.const_keys(a_, c_) if isinstance(a_, ast.AST) else None
                        if ks is None:
                            return None
                        out += ks
                finally:
                    self._ck_active = False
                return sorted(set(out)) if sites and out else None
            # the innermost enclosing loop that binds the name decides (the same name may be reused by another loop)
            par = self.prog.parent.get(key)
            while par is not None and par is not fn.node:
                if isinstance(par, ast.For) and isinstance(par.target, ast.Name) and par.target.id == key.id:
                    bl = [("iter", par.iter)]
                    break
                if isinstance(par, ast.For) and isinstance(par.target, (ast.Tuple, ast.List)) and any(isinstance(t, ast.Name) and t.id == key.id for t in par.target.elts):
                    # for flag, key, value in ((True, "comment", comment), ...): the column of the table the name stands for
                    col = [i for i, t in enumerate(par.target.elts) if isinstance(t, ast.Name) and t.id == key.id][0]
                    table = par.iter
                    # for key, value in TABLE.items() with TABLE a dictionary display (module level or local, bound once)
                    if col == 0 and isinstance(table, ast.Call) and isinstance(table.func, ast.Attribute) and table.func.attr == "items" and not table.args \
                            and isinstance(table.func.value, ast.Name):
                        nm = table.func.value.id
                        tb = self.res.bindings(fn).get(nm, [])
                        d = tb[0][1] if len(tb) == 1 and tb[0][0] == "value" else (fn.module.assigns[nm][0] if not tb and fn.module is not None and len(fn.module.assigns.get(nm, [])) == 1 else None)
                        if isinstance(d, ast.Dict) and d.keys and all(k is not None and const_str(k) is not None for k in d.keys):
                            return [const_str(k) for k in d.keys]
                        return None
                    if isinstance(table, ast.Call):
                        # for key, value in gen(...) with gen a package generator whose every yield is a tuple display with a
                        # string constant in that column (directly, or a loop variable over a table of constants inside it)
                        tgs = [k[1] for k in self.res.kinds(table.func, fn) if k[0] == "func"]
                        if len(tgs) == 1 and tgs[0].is_generator:
                            G = tgs[0]
                            ys = [y for y in own_nodes(G.node) if isinstance(y, (ast.Yield, ast.YieldFrom))]
                            if ys and all(isinstance(y, ast.Yield) and isinstance(y.value, ast.Tuple) and len(y.value.elts) == len(par.target.elts) for y in ys):
                                out = []
                                for y in ys:
                                    ks = self.const_keys(y.value.elts[col], G)
                                    if ks is None:
                                        return None
                                    out += ks
                                return sorted(set(out))
                        return None
                    if isinstance(table, ast.Name):
                        tb = self.res.bindings(fn).get(table.id, [])
                        if len(tb) == 1 and tb[0][0] == "value":
                            table = tb[0][1]
                        elif not tb and fn.module is not None and len(fn.module.assigns.get(table.id, [])) == 1:
                            table = fn.module.assigns[table.id][0]
                    if isinstance(table, (ast.Tuple, ast.List)) and table.elts and all(isinstance(r, (ast.Tuple, ast.List)) and len(r.elts) == len(par.target.elts) for r in table.elts):
                        cells = [const_str(r.elts[col]) for r in table.elts]
                        return cells if all(c is not None for c in cells) else None
                    return None
                par = self.prog.parent.get(par)
            out = []
            for w, p_ in bl:
                if w != "iter":
                    return None
                if isinstance(p_, ast.Name) and p_.id not in self.res.bindings(fn) and fn.module is not None:
                    # a module-level constant tuple of field names
                    vals = fn.module.assigns.get(p_.id, [])
                    p_ = vals[0] if len(vals) == 1 and isinstance(vals[0], ast.Tuple) else p_
                if isinstance(p_, ast.Attribute) and isinstance(p_.value, ast.Name) and fn.cls is not None and p_.value.id in (fn.self_name, "cls", fn.cls.name):
                    # a class-level constant tuple of field names: `for key in self.seed_fields`
                    for c_ in self.prog.mro(fn.cls):
                        vals = c_.class_assigns.get(p_.attr, [])
                        if vals:
                            p_ = vals[0] if len(vals) == 1 and isinstance(vals[0], (ast.Tuple, ast.List)) else p_
                            break
                if isinstance(p_, (ast.Tuple, ast.List)) and p_.elts and all(const_str(x) is not None for x in p_.elts):
                    out += [const_str(x) for x in p_.elts]
                else:
                    return None
            if out:
                return out
        return None

    # ------------------------------------------------------------------ expression evaluation
    def pts(self, e, fn, mod=None):
        mod = mod or (fn.module if fn else None)
        if e is None:
            return set()
        if isinstance(e, ast.Dict):
            o = self._obj("dict", e, fn, mod)
            for idx, (k, v) in enumerate(zip(e.keys, e.values)):
                if k is None:
                    # {**src, "key": x}: a later explicit key replaces what the spread brought under that key
                    later = {const_str(k2) for k2 in e.keys[idx + 1:] if k2 is not None and const_str(k2) is not None}
                    for so in self.pts(v, fn, mod):
                        for kk in self.keys_of(so) | ({STAR} if so.kind in ("loaded", "loadedchild") else set()):
                            if kk in later:
                                continue
                            if kk == STAR:
                                # everything the decoded source may hold, except the keys that are overridden
                                self._add(self.var, ("spread", id(e)), {so})
                                continue
                            self._add(self.field, (o, kk), self.getfield(so, kk))
                    continue
                ck = const_str(k)
                self._add(self.field, (o, ck if ck is not None else STAR), self.pts(v, fn, mod))
            return {o}
        if isinstance(e, ast.DictComp):
            info = sorted_copy_info(self.res, e, fn, mod)
            if info is not None:
                o = self._obj("copy", e, fn, mod)
                o.sorted, o.deep, o.src = True, info[1], info[0]
                self._add(self.var, ("copysrc", id(e)), self.pts(info[0], fn, mod))
                return {o}
            o = self._obj("dict", e, fn, mod)
            self._add(self.field, (o, STAR), self.pts(e.value, fn, mod))
            return {o}
        if isinstance(e, (ast.List, ast.Tuple, ast.Set)):
            o = self._obj("list", e, fn, mod)
            for x in e.elts:
                if isinstance(x, ast.Starred):
                    for so in self.pts(x.value, fn, mod):
                        self._add(self.field, (o, ELEM), self.getfield(so, ELEM))
                else:
                    self._add(self.field, (o, ELEM), self.pts(x, fn, mod))
            return {o}
        if isinstance(e, (ast.ListComp, ast.SetComp, ast.GeneratorExp)):
            o = self._obj("list", e, fn, mod)
            self._add(self.field, (o, ELEM), self.pts(e.elt, fn, mod))
            return {o}
        if isinstance(e, ast.Name):
            return self._name(e.id, fn, mod)
        if isinstance(e, ast.Attribute):
            return self._attr(e, fn, mod)
        if isinstance(e, ast.Subscript):
            out = set()
            if isinstance(e.slice, ast.Slice):
                return self.pts(e.value, fn, mod)
            cks = self.const_keys(e.slice, fn)
            for o in self.pts(e.value, fn, mod):
                if o.kind == "list":
                    out |= self.getfield(o, ELEM)
                elif cks is not None:
                    for ck in cks:
                        out |= self.getfield(o, ck)
                else:
                    out |= self.getfield(o, None)
            return out
        if isinstance(e, ast.IfExp):
            return self.pts(e.body, fn, mod) | self.pts(e.orelse, fn, mod)
        if isinstance(e, ast.BoolOp):
            out = set()
            for v in e.values:
                out |= self.pts(v, fn, mod)
            return out
        if isinstance(e, ast.NamedExpr):
            return self.pts(e.value, fn, mod)
        if isinstance(e, ast.Starred):
            return self.pts(e.value, fn, mod)
        if isinstance(e, ast.BinOp) and isinstance(e.op, (ast.Add, ast.BitOr)):
            l, r = self.pts(e.left, fn, mod), self.pts(e.right, fn, mod)
            if l or r:
                o = self._obj("copy", e, fn, mod)
                self._add(self.var, ("copysrc", id(e)), l | r)
                return {o}
            return set()
        if isinstance(e, ast.Call):
            return self._call(e, fn, mod)
        return set()

    def _name(self, name, fn, mod):
        f = fn
        while f is not None:
            if name in self.res.bindings(f):
                return self.var.get(("local", f.qual, name), set())
            f = getattr(f, "outer_fn", None)
        if mod is not None and name in mod.assigns:
            return self.var.get(("global", mod.name, name), set())
        return set()

    def _attr_key(self, e, fn, mod):
        keys = []
        for k in self.res.kinds(e.value, fn, mod):
            if k[0] in ("inst", "class"):
                for owner in self.attr_owners(k[1], e.attr):
                    key = ("attr", owner, e.attr)
                    if key not in keys:
                        keys.append(key)
        return keys

    def _attr(self, e, fn, mod):
        out = set()
        for key in self._attr_key(e, fn, mod):
            out |= self.var.get(key, set())
        return out

    def _call(self, e, fn, mod):
        out = set()
        info = sorted_copy_info(self.res, e, fn, mod)
        if info is not None:
            x = info[0]
            o = self._obj("copy", e, fn, mod)
            o.sorted = True
            o.deep = info[1]
            o.src = x
            self._add(self.var, ("copysrc", id(e)), self.pts(x, fn, mod))
            return {o}
        targets = self.res.call_targets(e, fn, mod)
        for t in targets:
            if t[0] == "pkg":
                callee = t[1]
                if callee.name == "__init__" and not (isinstance(e.func, ast.Attribute) and e.func.attr == "__init__"):
                    continue
                if callee.is_generator:
                    o = self._obj("list", e, fn, mod, "generator")
                    self._add(self.field, (o, ELEM), self.var.get(("ret", callee.qual), set()))
                    out.add(o)
                else:
                    out |= self.var.get(("ret", callee.qual), set())
            elif t[0] == "ext":
                d = t[1]
                if d in LOADERS:
                    o = self._obj("loaded", e, fn, mod, "loaded")
                    out.add(o)
                elif d in COPY_FUNCS:
                    srcs = set()
                    for a in e.args:
                        srcs |= self.pts(a, fn, mod)
                    if d in ("builtins.dict", "collections.OrderedDict") or srcs:
                        o = self._obj("copy" if srcs or e.args else "dict", e, fn, mod)
                        if srcs:
                            self._add(self.var, ("copysrc", id(e)), srcs)
                        for kw in e.keywords:
                            if kw.arg:
                                self._add(self.field, (o, kw.arg), self.pts(kw.value, fn, mod))
                        out.add(o)
                elif d == "builtins.vars":
                    out.add(self._obj("dict", e, fn, mod, "vars()"))
                elif d in ("builtins.enumerate", "builtins.zip", "builtins.iter", "builtins.next", "builtins.filter", "builtins.map"):
                    for a in e.args:
                        out |= self.pts(a, fn, mod)
            elif t[0] in ("bmeth", "umeth"):
                name = t[2] if t[0] == "bmeth" else t[1]
                if not isinstance(e.func, ast.Attribute):
                    continue
                recv = self.pts(e.func.value, fn, mod)
                if name in VIEW_METHODS:
                    if name == "copy":
                        o = self._obj("copy", e, fn, mod)
                        self._add(self.var, ("copysrc", id(e)), recv)
                        out.add(o)
                    else:
                        out |= recv
                elif name in ("get", "pop", "setdefault"):
                    ck = const_str(e.args[0]) if e.args else None
                    for o in recv:
                        out |= self.getfield(o, ck if (ck is not None and o.kind != "list") else (ELEM if o.kind == "list" else None))
                    if len(e.args) > 1:
                        out |= self.pts(e.args[1], fn, mod)
                elif name == "join":
                    pass
        return out

    # ------------------------------------------------------------------ statements
    def _assign(self, target, value_objs, fn, mod, value_expr=None, node=None):
        if isinstance(target, ast.Name):
            f = fn
            if f is not None:
                self._add(self.var, ("local", f.qual, target.id), value_objs)
            else:
                self._add(self.var, ("global", mod.name, target.id), value_objs)
        elif isinstance(target, ast.Attribute):
            for key in self._attr_key(target, fn, mod):
                self._add(self.var, key, value_objs)
        elif isinstance(target, ast.Subscript):
            cks = self.const_keys(target.slice, fn) if not isinstance(target.slice, ast.Slice) else None
            for o in self.pts(target.value, fn, mod):
                if o.kind == "list":
                    self._add(self.field, (o, ELEM), value_objs)
                else:
                    for ck in (cks if cks is not None else [STAR]):
                        self._add(self.field, (o, ck), value_objs)
            self._insertion(node, fn, target.value, None if isinstance(target.slice, ast.Slice) else target.slice, value_expr, "store")
        elif isinstance(target, (ast.Tuple, ast.List)):
            for t in target.elts:
                self._assign(t.value if isinstance(t, ast.Starred) else t, value_objs, fn, mod, value_expr, node)

    def _insertion(self, node, fn, base, key, value, how):
        if node is None or id(node) in self._ins_seen:
            return
        self._ins_seen.add(id(node))
        self.insertions.append(Insertion(node, fn, base, key, value, how))

    def _stmt(self, n, fn, mod):
        if isinstance(n, ast.Assign) and isinstance(self.prog.parent.get(n), ast.For) and inplace_rekey(self.prog.parent.get(n)) is not None:
            # d[k] = d.pop(k) for k in sorted(d): moves every key to the end - no new contents, no new edges
            loop = self.prog.parent.get(n)
            if id(n) not in self._ins_seen:
                self._ins_seen.add(id(n))
                self.insertions.append(Insertion(n, fn, inplace_rekey(loop), None, None, "rekey"))
            return
        if isinstance(n, ast.Call) and isinstance(n.func, ast.Attribute) and n.func.attr == "pop":
            st = self.prog.enclosing_stmt(n)
            lp = self.prog.parent.get(st) if st is not None else None
            if isinstance(lp, ast.For) and inplace_rekey(lp) is not None:
                return
        if isinstance(n, ast.Assign):
            for t in n.targets:
                if isinstance(t, (ast.Tuple, ast.List)):
                    self._unpack(t, n.value, fn, mod, n)
                else:
                    self._assign(t, self.pts(n.value, fn, mod), fn, mod, n.value, n)
        elif isinstance(n, ast.AnnAssign) and n.value is not None:
            self._assign(n.target, self.pts(n.value, fn, mod), fn, mod, n.value, n)
        elif isinstance(n, ast.AugAssign):
            vo = self.pts(n.value, fn, mod)
            tgt = self.pts(n.target, fn, mod)
            for o in tgt:
                if o.kind in ("list", "copy"):
                    for so in vo:
                        self._add(self.field, (o, ELEM), self.getfield(so, ELEM))
                elif isinstance(n.op, ast.BitOr):
                    for so in vo:
                        for kk in self.keys_of(so):
                            self._add(self.field, (o, kk), self.getfield(so, kk))
            if any(o.kind in ("list", "dict", "copy") for o in tgt) and isinstance(n.op, (ast.Add, ast.BitOr)):
                self._insertion(n, fn, n.target, None, n.value, "aug")
        elif isinstance(n, ast.Delete):
            for t in n.targets:
                if isinstance(t, ast.Subscript):
                    self._insertion(n, fn, t.value, t.slice, None, "del")
        elif isinstance(n, (ast.For, ast.comprehension)) and self._table_loop(n, fn, mod):
            pass
        elif isinstance(n, (ast.For, ast.comprehension)):
            elems = set()
            for o in self.pts(n.iter, fn, mod):
                elems |= self.getfield(o, ELEM if o.kind == "list" else None)
                if o.kind in ("dict", "copy", "loaded", "loadedchild"):
                    # iterating .items() view of a dict yields (key, value): values reach tuple targets
                    elems |= self.getfield(o, None)
            for k in self.res.kinds(n.iter, fn, mod):
                if k[0] == "inst":
                    m = self.prog.find_method(k[1], "__next__")
                    if m:
                        elems |= self.var.get(("ret", m.qual), set())
                elif k[0] == "gen":
                    elems |= self.var.get(("ret", k[1].qual), set())
            self._assign(n.target, elems, fn, mod)
        elif isinstance(n, ast.With):
            for it in n.items:
                if it.optional_vars is not None:
                    self._assign(it.optional_vars, self.pts(it.context_expr, fn, mod), fn, mod)
        elif isinstance(n, ast.Return) and n.value is not None and fn is not None:
            self._add(self.var, ("ret", fn.qual), self.pts(n.value, fn, mod))
            if isinstance(n.value, ast.Tuple):
                pos = self._tuple_positions(n.value, fn)
                if pos is not None:
                    for i, (how, x) in enumerate(pos):
                        if how == "expr":
                            self._add(self.var, ("ret", fn.qual, i), self.pts(x, fn, mod))
                        else:
                            # the k-th element of a local list display spliced in with *: what the display holds there
                            # plus whatever is stored into the list afterwards
                            lit, k = x
                            self._add(self.var, ("ret", fn.qual, i), self.pts(lit.elts[k], fn, mod))
                            for o in self.pts(lit, fn, mod):
                                self._add(self.var, ("ret", fn.qual, i), {e_ for e_ in self.getfield(o, ELEM) if not any(e_ in self.pts(y, fn, mod) for y in lit.elts)})
            elif isinstance(n.value, ast.Call):
                for t in self.res.call_targets(n.value, fn, mod):
                    if t[0] == "pkg":
                        for i in range(6):
                            self._add(self.var, ("ret", fn.qual, i), self.var.get(("ret", t[1].qual, i), set()))
        elif isinstance(n, (ast.Yield, ast.YieldFrom)) and n.value is not None and fn is not None:
            if isinstance(n, ast.YieldFrom):
                for o in self.pts(n.value, fn, mod):
                    self._add(self.var, ("ret", fn.qual), self.getfield(o, ELEM))
            else:
                self._add(self.var, ("ret", fn.qual), self.pts(n.value, fn, mod))
        elif isinstance(n, ast.Call):
            self._call_stmt(n, fn, mod)

    def _unpack(self, target, value, fn, mod, node):
        if isinstance(value, (ast.Tuple, ast.List)) and len(value.elts) == len(target.elts):
            for t, v in zip(target.elts, value.elts):
                if isinstance(t, (ast.Tuple, ast.List)):
                    self._unpack(t, v, fn, mod, node)
                else:
                    self._assign(t, self.pts(v, fn, mod), fn, mod, v, node)
            return
        handled = False
        if isinstance(value, ast.Call):
            for t in self.res.call_targets(value, fn, mod):
                if t[0] == "pkg" and not t[1].is_generator:
                    if self._tuple_arity(t[1], set()) == len(target.elts):
                        handled = True
                        for i, tt in enumerate(target.elts):
                            self._assign(tt, self.var.get(("ret", t[1].qual, i), set()), fn, mod, value, node)
        if not handled:
            objs = self.pts(value, fn, mod)
            # tuples built elsewhere with exactly this arity (a tuple kept in an attribute, handed out by a method ...):
            # position by position
            tups = [o for o in objs if o.kind == "list" and isinstance(o.node, ast.Tuple) and len(o.node.elts) == len(target.elts)]
            if tups and len(tups) == len([o for o in objs if o.kind in ("list", "dict", "copy")]):
                for o in tups:
                    for i, tt in enumerate(target.elts):
                        if isinstance(tt, ast.Starred):
                            continue
                        self._assign(tt, self.pts(o.node.elts[i], o.fn, o.mod), fn, mod, value, node)
                return
            elems = set()
            for o in objs:
                elems |= self.getfield(o, ELEM if o.kind == "list" else None)
            for tt in target.elts:
                self._assign(tt.value if isinstance(tt, ast.Starred) else tt, elems | objs, fn, mod, value, node)

    def _table_loop(self, n, fn, mod):
        """for a, b in ((x1, y1), (x2, y2)) over a literal table (directly or through a local bound once): column by column."""
        if not isinstance(n.target, (ast.Tuple, ast.List)) or any(isinstance(t, ast.Starred) for t in n.target.elts):
            return False
        table = n.iter
        if isinstance(table, ast.Name) and fn is not None:
            bl = self.res.bindings(fn).get(table.id, [])
            if len(bl) == 1 and bl[0][0] == "value":
                table = bl[0][1]
        if not (isinstance(table, (ast.Tuple, ast.List)) and table.elts
                and all(isinstance(r, (ast.Tuple, ast.List)) and len(r.elts) == len(n.target.elts) and not any(isinstance(y, ast.Starred) for y in r.elts) for r in table.elts)):
            return False
        for i, t in enumerate(n.target.elts):
            objs = set()
            for r in table.elts:
                objs |= self.pts(r.elts[i], fn, mod)
            self._assign(t, objs, fn, mod)
        return True

    def _tuple_positions(self, tup, fn):
        """[('expr', node) | ('star', (list display, k))] per position of a tuple display; `*name` is expanded when name is a
        local bound once to a list / tuple display.  None if a starred element cannot be expanded."""
        out = []
        for x in tup.elts:
            if not isinstance(x, ast.Starred):
                out.append(("expr", x))
                continue
            v = x.value
            bl = self.res.bindings(fn).get(v.id, []) if isinstance(v, ast.Name) and fn is not None else []
            if len(bl) != 1 or bl[0][0] != "value" or not isinstance(bl[0][1], (ast.List, ast.Tuple)) or any(isinstance(y, ast.Starred) for y in bl[0][1].elts):
                return None
            for k in range(len(bl[0][1].elts)):
                out.append(("star", (bl[0][1], k)))
        return out

    def _tuple_arity(self, f, seen):
        """Arity if every return of f is a tuple literal of one size (following `return g(...)`), else None."""
        if f in seen:
            return None
        seen = seen | {f}
        ar = set()
        for r in self.res.return_exprs(f):
            if isinstance(r, ast.Tuple):
                pos = self._tuple_positions(r, f)
                ar.add(len(pos) if pos is not None else None)
            elif isinstance(r, ast.Call):
                sub = {self._tuple_arity(t[1], seen) for t in self.res.call_targets(r, f) if t[0] == "pkg"}
                ar |= sub or {None}
            else:
                ar.add(None)
        return ar.pop() if len(ar) == 1 else None

    def _call_stmt(self, e, fn, mod):
        # arguments -> parameters
        for t in self.res.call_targets(e, fn, mod):
            if t[0] == "pkg":
                callee = t[1]
                skip_self = callee.cls is not None and not callee.is_static
                bound = self.res.bind_args(callee, e, skip_self)
                for p, arg in bound.items():
                    if p in ("*", "**") or p.startswith("*") or isinstance(arg, list):
                        continue
                    self._add(self.var, ("local", callee.qual, p), self.pts(arg, fn, mod))
                if "**" in bound:
                    for so in self.pts(bound["**"], fn, mod):
                        for p in callee.all_params():
                            self._add(self.var, ("local", callee.qual, p), self.getfield(so, p))
        # container mutators
        if isinstance(e.func, ast.Attribute):
            name = e.func.attr
            if name in ("append", "add", "insert", "appendleft"):
                arg = e.args[-1] if e.args else None
                recv = self.pts(e.func.value, fn, mod)
                if arg is not None:
                    vo = self.pts(arg, fn, mod)
                    for o in recv:
                        self._add(self.field, (o, ELEM), vo)
                    if recv:
                        self._insertion(e, fn, e.func.value, None, arg, "append")
            elif name == "extend":
                recv = self.pts(e.func.value, fn, mod)
                if e.args:
                    for so in self.pts(e.args[0], fn, mod):
                        for o in recv:
                            self._add(self.field, (o, ELEM), self.getfield(so, ELEM))
                    if recv:
                        self._insertion(e, fn, e.func.value, None, e.args[0], "extend")
            elif name == "update":
                recv = self.pts(e.func.value, fn, mod)
                for a in e.args:
                    for so in self.pts(a, fn, mod):
                        for o in recv:
                            for kk in self.keys_of(so) | ({STAR} if so.kind in ("loaded", "loadedchild") else set()):
                                self._add(self.field, (o, kk), self.getfield(so, None if kk == STAR else kk))
                for kw in e.keywords:
                    if kw.arg:
                        for o in recv:
                            self._add(self.field, (o, kw.arg), self.pts(kw.value, fn, mod))
                if recv and any(o.kind != "list" for o in recv):
                    self._insertion(e, fn, e.func.value, None, e.args[0] if e.args else None, "update")
            elif name == "setdefault" and e.args:
                recv = self.pts(e.func.value, fn, mod)
                ck = const_str(e.args[0])
                if len(e.args) > 1:
                    vo = self.pts(e.args[1], fn, mod)
                    for o in recv:
                        self._add(self.field, (o, ck if ck is not None else STAR), vo)
                if recv:
                    self._insertion(e, fn, e.func.value, e.args[0], e.args[1] if len(e.args) > 1 else None, "setdefault")
            elif name in ("pop", "popitem", "clear") and e.func.value is not None:
                recv = self.pts(e.func.value, fn, mod)
                if recv and any(o.kind != "list" for o in recv):
                    self._insertion(e, fn, e.func.value, e.args[0] if e.args else None, None, "del")
                elif recv and id(e) not in self._ins_seen:
                    self._ins_seen.add(id(e))
                    self.list_edits.append(Insertion(e, fn, e.func.value, None, None, "remove"))
            elif name in ("remove", "sort", "reverse") and e.func.value is not None:
                recv = self.pts(e.func.value, fn, mod)
                if recv and id(e) not in self._ins_seen:
                    self._ins_seen.add(id(e))
                    self.list_edits.append(Insertion(e, fn, e.func.value, None, None, "remove" if name == "remove" else "reorder"))

    def _solve(self):
        units = []
        for fn in self.prog.functions.values():
            units.append((fn, fn.module, own_nodes(fn.node)))
        for mod in self.prog.modules.values():
            units.append((None, mod, list(self.res._module_level_nodes(mod))))
        for _ in range(40):
            self.changed = False
            for fn, mod, nodes in units:
                for n in nodes:
                    self._stmt(n, fn, mod)
            if not self.changed:
                break
        else:
            raise RuntimeError("points-to did not converge")

    # ------------------------------------------------------------------ queries
    def key_paths(self, roots, maxlen=8, per_object=4):
        """{Obj: set(key paths)} for every object reachable through fields from the root objects.

        Breadth first (shortest paths first); at most `per_object` paths are kept per object, which keeps recursive
        structures (file trees, self-containing dictionaries) from exploding."""
        from collections import deque
        out = {}
        work = deque((o, ()) for o in roots)
        steps = 0
        while work:
            o, path = work.popleft()
            steps += 1
            if steps > 200000:
                break
            s = out.setdefault(o, set())
            if path in s or len(path) > maxlen or len(s) >= per_object:
                continue
            s.add(path)
            for k in set(self.keys_of(o)):
                for c in self.getfield(o, k):
                    # do not extend a path with the same key twice in a row through recursion (file tree)
                    if len(path) >= 2 and path[-1] == k == path[-2]:
                        continue
                    if c in out and len(out[c]) >= per_object:
                        continue
                    work.append((c, path + (k,)))
            if o.kind == "copy":
                for so in self._copy_sources(o):
                    if so not in out or (path not in out[so] and len(out[so]) < per_object):
                        work.append((so, path))
        # lazily created children of decoded structures
        for c in list(self.objs.values()):
            if c.kind != "loadedchild" or c in out:
                continue
            keys = []
            p = c
            while p.kind == "loadedchild":
                keys.append(p.src[1])
                p = p.src[0]
            if p in out:
                keys.reverse()
                out[c] = {rp + tuple(keys) for rp in out[p]}
        return out

    def list_edits_of(self, objs):
        objs = set(objs)
        out = []
        for ins in self.list_edits:
            base = self.pts(ins.base, ins.fn, ins.fn.module if ins.fn else None)
            if base & objs:
                out.append((ins, base & objs))
        return out

    def insertions_into(self, objs):
        objs = set(objs)
        out = []
        for ins in self.insertions:
            base = self.pts(ins.base, ins.fn, ins.fn.module if ins.fn else None)
            if base & objs:
                out.append((ins, base & objs))
        return out
