"""Whole-package call graph with protocol edges, callback slots and CLI dispatch."""
import ast

from .loader import own_nodes
from .resolve import Resolver, UNKNOWN


class CallSite:
    __slots__ = ("fn", "node", "targets", "mod", "approx")

    def __init__(self, fn, node, targets, mod, approx=()):
        self.fn = fn          # caller Func or None (module level)
        self.node = node      # ast.Call (or synthetic protocol node)
        self.targets = targets
        self.mod = mod
        self.approx = set(approx)   # Funcs linked only by method-name over-approximation

    def where(self):
        name = self.fn.qual if self.fn else self.mod.name + ":<module>"
        return "%s line %s" % (name, getattr(self.node, "lineno", "?"))


class CallGraph:
    def __init__(self, prog, res=None):
        self.prog = prog
        self.res = res or Resolver(prog)
        self.sites = {}        # Func -> [CallSite]
        self.module_sites = {}  # Module -> [CallSite]
        self.edges = {}        # Func -> set(Func)
        self.unresolved = []   # CallSites with only unknown targets
        self.dispatch = {}     # keyword name -> [(expr, mod, fn)] from set_defaults(name=...)
        self.stats = {"calls": 0, "resolved": 0, "umeth": 0, "unknown": 0}
        self._methods_by_name = {}
        for f in prog.functions.values():
            if f.cls is not None:
                self._methods_by_name.setdefault(f.name, []).append(f)
        self._collect_dispatch()
        self._build()

    # ------------------------------------------------------------------
    def _collect_dispatch(self):
        for f in self.prog.functions.values():
            for n in own_nodes(f.node):
                if isinstance(n, ast.Call) and isinstance(n.func, ast.Attribute) and n.func.attr == "set_defaults":
                    for kw in n.keywords:
                        if kw.arg:
                            self.dispatch.setdefault(kw.arg, []).append((kw.value, f.module, f, n))

    def _expand(self, targets, call, fn, mod):
        """Turn raw resolver targets into final targets (over-approximating unknown receivers)."""
        out = []
        self._last_approx = set()
        precise = {t[1] for t in targets if t[0] == "pkg"}
        for t in targets:
            if t[0] == "umeth":
                name = t[1]
                cands = list(self._methods_by_name.get(name, []))
                self._last_approx |= {c for c in cands if c not in precise}
                for (expr, m, f, _n) in self.dispatch.get(name, []):
                    for k in self.res.kinds(expr, f, m):
                        if k[0] == "func":
                            cands.append(k[1])
                        elif k[0] == "bmeth" or k[0] == "ext":
                            out.append(("ext", "dispatch:" + ast.unparse(expr)))
                for c in cands:
                    out.append(("pkg", c))
                out.append(("umeth", name))
            else:
                out.append(t)
        seen = []
        for o in out:
            if o not in seen:
                seen.append(o)
        return seen

    def _add_site(self, fn, mod, node, targets):
        site = CallSite(fn, node, targets, mod)
        if fn is not None:
            self.sites.setdefault(fn, []).append(site)
            for t in targets:
                if t[0] == "pkg":
                    self.edges.setdefault(fn, set()).add(t[1])
        else:
            self.module_sites.setdefault(mod, []).append(site)
        return site

    def _proto(self, fn, mod, node, expr, names):
        """Protocol edge: calling dunder methods `names` on the kinds of expr."""
        targets = []
        for k in self.res.kinds(expr, fn, mod):
            if k[0] == "inst":
                for nm in names:
                    m = self.prog.find_method(k[1], nm)
                    if m:
                        targets.append(("pkg", m))
            elif k[0] == "gen":
                targets.append(("pkg", k[1]))
        if targets:
            self._add_site(fn, mod, node, targets)

    def _scan(self, fn, mod, nodes):
        for n in nodes:
            if isinstance(n, ast.Call):
                self.stats["calls"] += 1
                raw = self.res.call_targets(n, fn, mod)
                targets = self._expand(raw, n, fn, mod)
                self._add_site(fn, mod, n, targets).approx = set(self._last_approx)
                kinds = {t[0] for t in targets}
                if kinds & {"pkg", "ext", "bmeth", "new", "lambda"}:
                    self.stats["resolved"] += 1
                elif "umeth" in kinds:
                    self.stats["umeth"] += 1
                else:
                    self.stats["unknown"] += 1
                    self.unresolved.append((fn, mod, n))
                # protocol: next(x), len(x), iter(x), list(x)/sorted(x)/... iterate
                if isinstance(n.func, ast.Name) and n.args:
                    if n.func.id == "next":
                        self._proto(fn, mod, n, n.args[0], ["__next__"])
                    elif n.func.id == "len":
                        self._proto(fn, mod, n, n.args[0], ["__len__"])
                    elif n.func.id in ("iter", "list", "tuple", "sorted", "set", "sum", "max", "min", "any", "all", "enumerate", "zip", "dict"):
                        for a in n.args:
                            self._proto(fn, mod, n, a, ["__iter__", "__next__"])
                # generator-valued / callable arguments passed to external code are called by it
                is_store = isinstance(n.func, ast.Attribute) and n.func.attr == "set_defaults"
                for a in ([] if is_store else list(n.args) + [kw.value for kw in n.keywords]):
                    for k in self.res.kinds(a, fn, mod):
                        if k[0] == "func" and not any(t[0] == "pkg" for t in targets):
                            self._add_site(fn, mod, n, [("pkg", k[1])])
            elif isinstance(n, (ast.For, ast.comprehension)):
                self._proto(fn, mod, n, n.iter, ["__iter__", "__next__"])
            elif isinstance(n, ast.With):
                for it in n.items:
                    self._proto(fn, mod, n, it.context_expr, ["__enter__", "__exit__"])
            elif isinstance(n, ast.YieldFrom):
                self._proto(fn, mod, n, n.value, ["__iter__", "__next__"])
            elif isinstance(n, ast.Subscript):
                self._proto(fn, mod, n, n.value, ["__getitem__", "__setitem__"])
            elif isinstance(n, ast.Compare):
                for op, c in zip(n.ops, n.comparators):
                    if isinstance(op, (ast.In, ast.NotIn)):
                        self._proto(fn, mod, n, c, ["__contains__"])

    def _build(self):
        for fn in self.prog.functions.values():
            self._scan(fn, fn.module, own_nodes(fn.node))
        for mod in self.prog.modules.values():
            self._scan(None, mod, self.res._module_level_nodes(mod))
        # decorators: evaluated at definition time (module import) - add as module sites
        for f in self.prog.functions.values():
            for d in f.decorators:
                for k in self.res.kinds(d, None, f.module):
                    if k[0] == "class":
                        init = self.prog.find_method(k[1], "__init__")
                        if init:
                            self._add_site(None, f.module, d, [("pkg", init)])

    # ------------------------------------------------------------------
    def callees(self, fn):
        return self.edges.get(fn, set())

    def reachable(self, entries, allow_approx=True):
        """{Func: chain} for all functions reachable from the entry functions.

        chain is a list of (caller Func, CallSite) leading from an entry to the function.
        """
        seen = {}
        work = []
        for e in entries:
            if e not in seen:
                seen[e] = []
                work.append(e)
        while work:
            f = work.pop(0)
            for site in self.sites.get(f, []):
                for t in site.targets:
                    if t[0] == "pkg" and t[1] not in seen:
                        if t[1] in site.approx and not allow_approx:
                            continue
                        seen[t[1]] = seen[f] + [(f, site)]
                        work.append(t[1])
        return seen

    @staticmethod
    def chain_is_approx(chain, target=None):
        """True if some edge of the chain exists only by method-name over-approximation."""
        for i, (f, site) in enumerate(chain):
            nxt = chain[i + 1][0] if i + 1 < len(chain) else target
            if nxt is not None and nxt in site.approx:
                return True
        return False

    @staticmethod
    def chain_text(chain):
        return " -> ".join("%s@%s" % (f.qual, getattr(s.node, "lineno", "?")) for f, s in chain)
