"""Assignment expressions written out as statements (applied to every module before any reading).

`if (n := E) > 1: S`                 ->  `n = E` ; `if n > 1: S`
`if A and (n := E) > 0: S`           ->  `if A:` `n = E` ; `if n > 0: S`          (no else arm)
`while A and (n := E): S`            ->  `while A:` `n = E` ; `if not n: break` ; S   (no else arm)
`while (n := E): S`                  ->  `while True:` `n = E` ; `if not n: break` ; S
`x = f((n := E))`, `return ...`      ->  `n = E` ; `x = f(n)`

Only positions that are evaluated whenever the statement is executed are written out; a walrus under a later operand of a
Boolean operator, inside a conditional expression, a comprehension or a lambda is left as written.  The pinned tree has
no assignment expression: on it this pass changes nothing.
"""
import ast


def _unconditional(expr):
    """NamedExpr nodes of expr evaluated whenever expr is, in evaluation order."""
    out = []

    def walk(n):
        if isinstance(n, (ast.Lambda, ast.ListComp, ast.SetComp, ast.DictComp, ast.GeneratorExp)):
            return
        if isinstance(n, ast.BoolOp):
            walk(n.values[0])
            return
        if isinstance(n, ast.IfExp):
            walk(n.test)
            return
        if isinstance(n, ast.NamedExpr):
            walk(n.value)
            out.append(n)
            return
        for c in ast.iter_child_nodes(n):
            walk(c)
    walk(expr)
    return out


def _has_walrus(n):
    return any(isinstance(x, ast.NamedExpr) for x in ast.walk(n))


class _Replace(ast.NodeTransformer):
    def __init__(self, nodes):
        self.ids = {id(n) for n in nodes}

    def visit_NamedExpr(self, n):
        if id(n) in self.ids:
            return ast.copy_location(ast.Name(id=n.target.id, ctx=ast.Load()), n)
        self.generic_visit(n)
        return n


def _hoist(expr, at):
    """([assignments], expr without its unconditional assignment expressions)."""
    nodes = [n for n in _unconditional(expr) if isinstance(n.target, ast.Name)]
    if not nodes:
        return [], expr
    # innermost first (evaluation order); an inner assignment expression inside an outer one's value is replaced there too
    pre = []
    for i, n in enumerate(nodes):
        val = _Replace(nodes[:i]).visit(n.value) if i else n.value
        pre.append(ast.copy_location(ast.Assign(targets=[ast.Name(id=n.target.id, ctx=ast.Store())], value=val, lineno=at.lineno), at))
    new = _Replace(nodes).visit(expr)
    return pre, new


def _split_and(test):
    """A and B with the assignment expressions in B: (A, B) or None."""
    if isinstance(test, ast.BoolOp) and isinstance(test.op, ast.And) and len(test.values) >= 2 and not _has_walrus(test.values[0]):
        rest = test.values[1:]
        return test.values[0], (rest[0] if len(rest) == 1 else ast.copy_location(ast.BoolOp(op=ast.And(), values=rest), test))
    return None


def _lower_block(body):
    out = []
    for st in body:
        for fld in ("body", "orelse", "finalbody"):
            sub = getattr(st, fld, None)
            if isinstance(sub, list) and sub and isinstance(sub[0], ast.stmt):
                setattr(st, fld, _lower_block(sub))
        if isinstance(st, ast.Try):
            for h in st.handlers:
                h.body = _lower_block(h.body)
        if isinstance(st, ast.If) and _has_walrus(st.test):
            pre, test = _hoist(st.test, st)
            if pre:
                st.test = test
                out.extend(pre)
                out.extend(_lower_block([st]) if _has_walrus(st.test) else [st])
                continue
            sp = _split_and(st.test)
            if sp is not None and not st.orelse:
                inner = ast.copy_location(ast.If(test=sp[1], body=st.body, orelse=[]), st)
                st.test = sp[0]
                st.body = _lower_block([inner])
                out.append(st)
                continue
            out.append(st)
            continue
        if isinstance(st, ast.While) and _has_walrus(st.test) and not st.orelse:
            sp = _split_and(st.test)
            cond = st.test
            if sp is not None:
                st.test, cond = sp
            else:
                st.test = ast.copy_location(ast.Constant(value=True), st.test)
            pre, cond = _hoist(cond, st)
            if pre or sp is not None:
                guard = ast.copy_location(ast.If(test=ast.copy_location(ast.UnaryOp(op=ast.Not(), operand=cond), st), body=[ast.copy_location(ast.Break(), st)], orelse=[]), st)
                st.body = pre + _lower_block([guard]) + st.body
                out.append(st)
                continue
            st.test = cond
            out.append(st)
            continue
        if isinstance(st, (ast.Assign, ast.AugAssign, ast.AnnAssign, ast.Expr, ast.Return)) and getattr(st, "value", None) is not None and _has_walrus(st.value):
            pre, val = _hoist(st.value, st)
            st.value = val
            out.extend(pre)
            out.append(st)
            continue
        out.append(st)
    return out


def lower(tree):
    """Rewrite tree in place; returns the number of assignment expressions it contained."""
    n = sum(1 for x in ast.walk(tree) if isinstance(x, ast.NamedExpr))
    if not n:
        return 0
    for node in ast.walk(tree):
        if isinstance(node, (ast.FunctionDef, ast.AsyncFunctionDef)):
            node.body = _lower_block(node.body)
    ast.fix_missing_locations(tree)
    return n


# ---------------------------------------------------------------------------------------------------------------------
# `seq += more` on a local list / bytearray is `seq.extend(more)`

_SEQ_MAKERS = ("bytearray", "list", "deque")


def _sequence_names(fn):
    names = set()
    for a in fn.args.args + fn.args.kwonlyargs + fn.args.posonlyargs:
        if a.annotation is not None and ast.unparse(a.annotation).split("[")[0].split(".")[-1] in ("bytearray", "list", "List", "MutableSequence"):
            names.add(a.arg)
    for n in ast.walk(fn):
        if isinstance(n, ast.Assign) and isinstance(n.value, (ast.List, ast.ListComp)) or \
                isinstance(n, ast.Assign) and isinstance(n.value, ast.Call) and isinstance(n.value.func, ast.Name) and n.value.func.id in _SEQ_MAKERS:
            for t in n.targets:
                if isinstance(t, ast.Name):
                    names.add(t.id)
        elif isinstance(n, ast.Call) and isinstance(n.func, ast.Attribute) and n.func.attr in ("append", "extend") and isinstance(n.func.value, ast.Name):
            names.add(n.func.value.id)
    # a name that is also given something that is not such a sequence is left alone
    for n in ast.walk(fn):
        if isinstance(n, ast.Assign):
            for t in n.targets:
                if isinstance(t, ast.Name) and t.id in names and not (isinstance(n.value, (ast.List, ast.ListComp)) or (
                        isinstance(n.value, ast.Call) and isinstance(n.value.func, ast.Name) and n.value.func.id in _SEQ_MAKERS)):
                    names.discard(t.id)
    return names


class _AugToExtend(ast.NodeTransformer):
    def __init__(self, names):
        self.names = names
        self.n = 0

    def visit_FunctionDef(self, n):
        return n            # nested functions have their own names

    visit_AsyncFunctionDef = visit_Lambda = visit_FunctionDef

    def visit_AugAssign(self, n):
        if isinstance(n.op, ast.Add) and isinstance(n.target, ast.Name) and n.target.id in self.names:
            self.n += 1
            call = ast.Call(func=ast.Attribute(value=ast.Name(id=n.target.id, ctx=ast.Load()), attr="extend", ctx=ast.Load()), args=[n.value], keywords=[])
            return ast.copy_location(ast.Expr(value=call), n)
        return n


def lower_augadd(tree):
    total = 0
    for fn in [x for x in ast.walk(tree) if isinstance(x, (ast.FunctionDef, ast.AsyncFunctionDef))]:
        if not any(isinstance(x, ast.AugAssign) and isinstance(x.op, ast.Add) and isinstance(x.target, ast.Name) for x in ast.walk(fn)):
            continue
        names = _sequence_names(fn)
        if not names:
            continue
        tr = _AugToExtend(names)
        fn.body = [tr.generic_visit(st) if not isinstance(st, ast.AugAssign) else tr.visit_AugAssign(st) for st in fn.body]
        total += tr.n
    if total:
        ast.fix_missing_locations(tree)
    return total
