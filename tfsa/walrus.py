"""Assignment expressions written out as statements (applied to every module before any reading).

`if (n := E) > 1: S`                 ->  `n = E` ; `if n > 1: S`
`if A and (n := E) > 0: S`           ->  `if A:` `n = E` ; `if n > 0: S`          (no else arm)
`while A and (n := E): S`            ->  `while A:` `n = E` ; `if not n: break` ; S   (no else arm)
`while (n := E): S`                  ->  `while True:` `n = E` ; `if not n: break` ; S
`x = f((n := E))`, `return ...`      ->  `n = E` ; `x = f(n)`

Only positions that are evaluated whenever the statement is executed are written out; a walrus under a later operand of a
Boolean operator, inside a conditional expression, a comprehension or a lambda is left as written.  The pinned tree has
no assignment expression: on it this pass changes nothing.
"""
import ast


def _unconditional(expr):
    """NamedExpr nodes of expr evaluated whenever expr is, in evaluation order."""
    out = []

    def walk(n):
        if isinstance(n, (ast.Lambda, ast.ListComp, ast.SetComp, ast.DictComp, ast.GeneratorExp)):
            return
        if isinstance(n, ast.BoolOp):
            walk(n.values[0])
            return
        if isinstance(n, ast.IfExp):
            walk(n.test)
            return
        if isinstance(n, ast.NamedExpr):
            walk(n.value)
            out.append(n)
            return
        for c in ast.iter_child_nodes(n):
            walk(c)
    walk(expr)
    return out


def _has_walrus(n):
    return any(isinstance(x, ast.NamedExpr) for x in ast.walk(n))


class _Replace(ast.NodeTransformer):
    def __init__(self, nodes):
        self.ids = {id(n) for n in nodes}

    def visit_NamedExpr(self, n):
        if id(n) in self.ids:
            return ast.copy_location(ast.Name(id=n.target.id, ctx=ast.Load()), n)
        self.generic_visit(n)
        return n


def _hoist(expr, at):
    """([assignments], expr without its unconditional assignment expressions)."""
    nodes = [n for n in _unconditional(expr) if isinstance(n.target, ast.Name)]
    if not nodes:
        return [], expr
    # innermost first (evaluation order); an inner assignment expression inside an outer one's value is replaced there too
    pre = []
    for i, n in enumerate(nodes):
        val = _Replace(nodes[:i]).visit(n.value) if i else n.value
        pre.append(ast.copy_location(ast.Assign(targets=[ast.Name(id=n.target.id, ctx=ast.Store())], value=val, lineno=at.lineno), at))
    new = _Replace(nodes).visit(expr)
    return pre, new


def _split_and(test):
    """A and B with the assignment expressions in B: (A, B) or None."""
    if isinstance(test, ast.BoolOp) and isinstance(test.op, ast.And) and len(test.values) >= 2 and not _has_walrus(test.values[0]):
        rest = test.values[1:]
        return test.values[0], (rest[0] if len(rest) == 1 else ast.copy_location(ast.BoolOp(op=ast.And(), values=rest), test))
    return None


def _lower_block(body):
    out = []
    for st in body:
        for fld in ("body", "orelse", "finalbody"):
            sub = getattr(st, fld, None)
            if isinstance(sub, list) and sub and isinstance(sub[0], ast.stmt):
                setattr(st, fld, _lower_block(sub))
        if isinstance(st, ast.Try):
            for h in st.handlers:
                h.body = _lower_block(h.body)
        if isinstance(st, ast.If) and _has_walrus(st.test):
            pre, test = _hoist(st.test, st)
            if pre:
                st.test = test
                out.extend(pre)
                out.extend(_lower_block([st]) if _has_walrus(st.test) else [st])
                continue
            sp = _split_and(st.test)
            if sp is not None and not st.orelse:
                inner = ast.copy_location(ast.If(test=sp[1], body=st.body, orelse=[]), st)
                st.test = sp[0]
                st.body = _lower_block([inner])
                out.append(st)
                continue
            out.append(st)
            continue
        if isinstance(st, ast.While) and _has_walrus(st.test) and not st.orelse:
            sp = _split_and(st.test)
            cond = st.test
            if sp is not None:
                st.test, cond = sp
            else:
                st.test = ast.copy_location(ast.Constant(value=True), st.test)
            pre, cond = _hoist(cond, st)
            if pre or sp is not None:
                guard = ast.copy_location(ast.If(test=ast.copy_location(ast.UnaryOp(op=ast.Not(), operand=cond), st), body=[ast.copy_location(ast.Break(), st)], orelse=[]), st)
                st.body = pre + _lower_block([guard]) + st.body
                out.append(st)
                continue
            st.test = cond
            out.append(st)
            continue
        if isinstance(st, (ast.Assign, ast.AugAssign, ast.AnnAssign, ast.Expr, ast.Return)) and getattr(st, "value", None) is not None and _has_walrus(st.value):
            pre, val = _hoist(st.value, st)
            st.value = val
            out.extend(pre)
            out.append(st)
            continue
        out.append(st)
    return out


def lower(tree):
    """Rewrite tree in place; returns the number of assignment expressions it contained."""
    n = sum(1 for x in ast.walk(tree) if isinstance(x, ast.NamedExpr))
    if not n:
        return 0
    for node in ast.walk(tree):
        if isinstance(node, (ast.FunctionDef, ast.AsyncFunctionDef)):
            node.body = _lower_block(node.body)
    ast.fix_missing_locations(tree)
    return n


# ---------------------------------------------------------------------------------------------------------------------
# `seq += more` on a local list / bytearray is `seq.extend(more)`

_SEQ_MAKERS = ("bytearray", "list", "deque")


def _sequence_names(fn):
    names = set()
    for a in fn.args.args + fn.args.kwonlyargs + fn.args.posonlyargs:
        if a.annotation is not None and ast.unparse(a.annotation).split("[")[0].split(".")[-1] in ("bytearray", "list", "List", "MutableSequence"):
            names.add(a.arg)
    for n in ast.walk(fn):
        if isinstance(n, ast.Assign) and isinstance(n.value, (ast.List, ast.ListComp)) or \
                isinstance(n, ast.Assign) and isinstance(n.value, ast.Call) and isinstance(n.value.func, ast.Name) and n.value.func.id in _SEQ_MAKERS:
            for t in n.targets:
                if isinstance(t, ast.Name):
                    names.add(t.id)
        elif isinstance(n, ast.Call) and isinstance(n.func, ast.Attribute) and n.func.attr in ("append", "extend") and isinstance(n.func.value, ast.Name):
            names.add(n.func.value.id)
    # a name that is also given something that is not such a sequence is left alone
    for n in ast.walk(fn):
        if isinstance(n, ast.Assign):
            for t in n.targets:
                if isinstance(t, ast.Name) and t.id in names and not (isinstance(n.value, (ast.List, ast.ListComp)) or (
                        isinstance(n.value, ast.Call) and isinstance(n.value.func, ast.Name) and n.value.func.id in _SEQ_MAKERS)):
                    names.discard(t.id)
    return names


class _AugToExtend(ast.NodeTransformer):
    def __init__(self, names):
        self.names = names
        self.n = 0

    def visit_FunctionDef(self, n):
        return n            # nested functions have their own names

    visit_AsyncFunctionDef = visit_Lambda = visit_FunctionDef

    def visit_AugAssign(self, n):
        if isinstance(n.op, ast.Add) and isinstance(n.target, ast.Name) and n.target.id in self.names:
            self.n += 1
            call = ast.Call(func=ast.Attribute(value=ast.Name(id=n.target.id, ctx=ast.Load()), attr="extend", ctx=ast.Load()), args=[n.value], keywords=[])
            return ast.copy_location(ast.Expr(value=call), n)
        return n


def lower_augadd(tree):
    total = 0
    for fn in [x for x in ast.walk(tree) if isinstance(x, (ast.FunctionDef, ast.AsyncFunctionDef))]:
        if not any(isinstance(x, ast.AugAssign) and isinstance(x.op, ast.Add) and isinstance(x.target, ast.Name) for x in ast.walk(fn)):
            continue
        names = _sequence_names(fn)
        if not names:
            continue
        tr = _AugToExtend(names)
        fn.body = [tr.generic_visit(st) if not isinstance(st, ast.AugAssign) else tr.visit_AugAssign(st) for st in fn.body]
        total += tr.n
    if total:
        ast.fix_missing_locations(tree)
    return total


# ---------------------------------------------------------------------------------------------------------------------
# a local table written as a dictionary display and walked once with .items():
#     T = {"a": x, "b": y}; ...; for k, v in T.items(): BODY      ->      T_0 = x; T_1 = y; T = {...}; ...; BODY[k:="a", v:=T_0]; BODY[k:="b", v:=T_1]
# The values are taken where the display is evaluated (temporaries), not where the loop runs.

import copy as _copy


class _Subst(ast.NodeTransformer):
    def __init__(self, mapping):
        self.mapping = mapping

    def visit_Name(self, n):
        if n.id in self.mapping and isinstance(n.ctx, ast.Load):
            return ast.copy_location(_copy.deepcopy(self.mapping[n.id]), n)
        return n


def _plain_value(e):
    return not any(isinstance(x, (ast.Call, ast.Await, ast.Yield, ast.YieldFrom, ast.NamedExpr, ast.ListComp, ast.SetComp, ast.DictComp, ast.GeneratorExp, ast.Lambda, ast.Starred))
                   for x in ast.walk(e))


def _own(fn):
    """Nodes of fn that are not inside a nested function / class."""
    out = []
    stack = list(fn.body)
    while stack:
        n = stack.pop()
        out.append(n)
        for c in ast.iter_child_nodes(n):
            if isinstance(c, (ast.FunctionDef, ast.AsyncFunctionDef, ast.ClassDef, ast.Lambda)):
                continue
            stack.append(c)
    return out


def _unroll_in(fn):
    own = _own(fn)
    parent = {}
    for n in own + [fn]:
        for c in ast.iter_child_nodes(n):
            parent[c] = n
    done = 0
    for st in [n for n in own if isinstance(n, ast.Assign)]:
        if not (len(st.targets) == 1 and isinstance(st.targets[0], ast.Name) and isinstance(st.value, ast.Dict) and 1 <= len(st.value.keys) <= 8):
            continue
        D = st.targets[0].id
        disp = st.value
        if not all(isinstance(k, ast.Constant) and isinstance(k.value, str) for k in disp.keys) or not all(_plain_value(v) for v in disp.values):
            continue
        uses = [n for n in own if isinstance(n, ast.Name) and n.id == D]
        stores = [n for n in uses if isinstance(n.ctx, (ast.Store, ast.Del))]
        loads = [n for n in uses if isinstance(n.ctx, ast.Load)]
        if len(stores) != 1 or not loads:
            continue
        loops = []
        ok = True
        for ld in loads:
            a = parent.get(ld)
            c = parent.get(a)
            lp = parent.get(c)
            if not (isinstance(a, ast.Attribute) and a.attr == "items" and isinstance(c, ast.Call) and not c.args and not c.keywords and isinstance(lp, ast.For) and lp.iter is c):
                ok = False
                break
            loops.append(lp)
        if not ok:
            continue
        # the statement list that holds the display, to put the temporaries in front of it
        holder = parent.get(st)
        lst = next((getattr(holder, f_) for f_ in ("body", "orelse", "finalbody") if isinstance(getattr(holder, f_, None), list) and st in getattr(holder, f_)), None)
        if lst is None:
            continue
        plans = []
        for lp in loops:
            t = lp.target
            if not (isinstance(t, (ast.Tuple, ast.List)) and len(t.elts) == 2 and all(isinstance(e, ast.Name) for e in t.elts)) or lp.orelse:
                ok = False
                break
            kn, vn = t.elts[0].id, t.elts[1].id
            bad = False
            stack = list(lp.body)
            while stack:
                n = stack.pop()
                if isinstance(n, (ast.Break, ast.Continue)):
                    bad = True
                if isinstance(n, (ast.For, ast.While, ast.FunctionDef, ast.AsyncFunctionDef, ast.Lambda, ast.ClassDef)):
                    if any(isinstance(x, ast.Name) and x.id in (kn, vn) and (isinstance(x.ctx, ast.Store) or isinstance(n, (ast.FunctionDef, ast.AsyncFunctionDef, ast.Lambda, ast.ClassDef)))
                           for x in ast.walk(n)):
                        bad = True
                    continue
                if isinstance(n, ast.Name) and n.id in (kn, vn) and isinstance(n.ctx, (ast.Store, ast.Del)):
                    bad = True
                stack.extend(ast.iter_child_nodes(n))
            lh = parent.get(lp)
            llst = next((getattr(lh, f_) for f_ in ("body", "orelse", "finalbody") if isinstance(getattr(lh, f_, None), list) and lp in getattr(lh, f_)), None)
            if bad or llst is None:
                ok = False
                break
            # the loop variables are not read by anything else in the function
            inside = {id(x) for x in ast.walk(lp)}
            for other in own:       # another loop that binds the same names itself keeps its own uses
                if isinstance(other, ast.For) and other is not lp and {kn, vn} & {x.id for x in ast.walk(other.target) if isinstance(x, ast.Name)}:
                    bound = {x.id for x in ast.walk(other.target) if isinstance(x, ast.Name)}
                    if {kn, vn} <= bound or not ({kn, vn} - bound) & {x.id for x in ast.walk(other) if isinstance(x, ast.Name)}:
                        inside |= {id(x) for x in ast.walk(other)}
            if any(isinstance(x, ast.Name) and x.id in (kn, vn) and id(x) not in inside for x in own):
                ok = False
                break
            plans.append((lp, llst, kn, vn))
        if not ok or not plans:
            continue
        temps = []
        pre = []
        for i, v in enumerate(disp.values):
            tn = "%s__%d" % (D, i)
            temps.append(tn)
            pre.append(ast.copy_location(ast.Assign(targets=[ast.Name(id=tn, ctx=ast.Store())], value=v, lineno=st.lineno), st))
        disp.values = [ast.copy_location(ast.Name(id=tn, ctx=ast.Load()), st) for tn in temps]
        at = lst.index(st)
        lst[at:at] = pre
        for lp, llst, kn, vn in plans:
            new = []
            for k, tn in zip(disp.keys, temps):
                sub = _Subst({kn: ast.Constant(value=k.value), vn: ast.Name(id=tn, ctx=ast.Load())})
                for b in lp.body:
                    new.append(sub.visit(_copy.deepcopy(b)))
            i = llst.index(lp)
            llst[i:i + 1] = new
        done += 1
        return done + _unroll_in(fn)        # positions changed: look again
    return done


def unroll_local_tables(tree):
    total = 0
    for fn in [x for x in ast.walk(tree) if isinstance(x, (ast.FunctionDef, ast.AsyncFunctionDef))]:
        if any(isinstance(x, ast.Attribute) and x.attr == "items" for x in ast.walk(fn)) and any(isinstance(x, ast.Dict) for x in ast.walk(fn)):
            total += _unroll_in(fn)
    if total:
        ast.fix_missing_locations(tree)
    return total
