"""Effect table: classification of external primitives, and transitive effect summaries."""
import ast

from .resolve import open_mode

# dotted name -> (effect class, roles)   roles: index of the path argument(s) that are *written*
FS_MUTATING = {
    "os.remove": [0], "os.unlink": [0], "os.rmdir": [0], "os.removedirs": [0],
    "os.rename": [0, 1], "os.renames": [0, 1], "os.replace": [0, 1],
    "os.mkdir": [0], "os.makedirs": [0], "os.truncate": [0], "os.chmod": [0], "os.chown": [0],
    "os.utime": [0], "os.link": [1], "os.symlink": [1], "os.mkfifo": [0], "os.mknod": [0],
    "os.open": [0], "os.write": [], "os.ftruncate": [], "os.fchmod": [], "os.lchown": [0],
    "shutil.copy": [1], "shutil.copy2": [1], "shutil.copyfile": [1], "shutil.copyfileobj": [1],
    "shutil.copymode": [1], "shutil.copystat": [1],
    "shutil.move": [0, 1], "shutil.rmtree": [0], "shutil.copytree": [1], "shutil.make_archive": [0],
    "shutil.chown": [0], "shutil.unpack_archive": [1],
    "pyben.dump": [1],
    "logging.FileHandler": [0], "logging.handlers.RotatingFileHandler": [0],
    "logging.handlers.TimedRotatingFileHandler": [0], "logging.handlers.WatchedFileHandler": [0],
    "shelve.open": [0], "dbm.open": [0], "sqlite3.connect": [0],
    "pickle.dump": [1], "json.dump": [1], "marshal.dump": [1],
    "subprocess.run": [], "subprocess.call": [], "subprocess.check_call": [], "subprocess.check_output": [],
    "subprocess.Popen": [], "os.system": [], "os.popen": [],
    "tempfile.mkstemp": [], "tempfile.mkdtemp": [], "tempfile.NamedTemporaryFile": [],
    "tempfile.TemporaryFile": [], "tempfile.TemporaryDirectory": [], "tempfile.SpooledTemporaryFile": [],
    "zipfile.ZipFile": [0], "tarfile.open": [0], "gzip.open": [0], "bz2.open": [0], "lzma.open": [0],
    "fileinput.input": [], "mmap.mmap": [],
}
for _n in ("execl", "execle", "execlp", "execv", "execve", "execvp", "spawnl", "spawnv", "spawnlp", "spawnvp", "startfile", "posix_spawn"):
    FS_MUTATING["os." + _n] = []

PATH_MUTATING_METHODS = {
    "write_text", "write_bytes", "touch", "mkdir", "rmdir", "unlink", "rename", "replace",
    "chmod", "lchmod", "symlink_to", "hardlink_to", "link_to",
}
FILE_WRITE_METHODS = {"write", "writelines", "truncate"}

FS_READING = {
    "os.path.exists", "os.path.getsize", "os.path.isfile", "os.path.isdir", "os.path.islink",
    "os.path.getmtime", "os.path.lexists", "os.path.samefile", "os.path.realpath",
    "os.listdir", "os.scandir", "os.walk", "os.stat", "os.lstat", "os.access", "os.readlink",
    "pyben.load", "shutil.get_terminal_size", "os.get_terminal_size", "glob.glob", "glob.iglob",
    "os.path.abspath", "os.getcwd",
}
ENUM_SOURCES = {"os.listdir", "os.scandir", "os.walk", "glob.glob", "glob.iglob", "os.fwalk"}
ENUM_METHODS = {"iterdir", "glob", "rglob"}
CLOCK = {"datetime.datetime.now", "datetime.datetime.utcnow", "datetime.datetime.today", "time.time",
         "time.time_ns", "time.monotonic", "time.localtime", "time.gmtime", "time.strftime", "time.ctime",
         "datetime.date.today", "time.perf_counter"}
CWD = {"os.getcwd", "os.getcwdb", "pathlib.Path.cwd"}
RANDOM = {"random.random", "random.randint", "random.choice", "random.shuffle", "uuid.uuid4", "uuid.uuid1",
          "os.urandom", "secrets.token_hex", "secrets.token_bytes", "random.sample", "os.getpid"}

# modules whose members are fail-closed when not classified
WATCHED_MODULES = ("os", "shutil", "pathlib", "tempfile", "subprocess", "io", "mmap", "fileinput",
                   "logging.handlers", "zipfile", "tarfile", "gzip", "bz2", "lzma", "shelve", "dbm", "sqlite3",
                   "pickle", "ctypes", "socket", "urllib.request", "http", "ftplib", "smtplib")
# members of watched modules known not to mutate the file system
BENIGN = {
    "os.path.join", "os.path.basename", "os.path.dirname", "os.path.split", "os.path.splitext",
    "os.path.relpath", "os.path.normpath", "os.path.commonpath", "os.path.commonprefix", "os.path.expanduser",
    "os.path.isabs", "os.path.normcase", "os.path.sep", "os.sep", "os.fspath", "os.fsencode", "os.fsdecode",
    "os.environ.get", "os.getenv", "os.getpid", "os.cpu_count", "os.PathLike", "os.linesep", "os.pathsep",
    "os.altsep", "os.name", "os.path.altsep", "os.path.expandvars", "os.get_terminal_size", "os.strerror",
    "os.urandom", "os.environ", "os.path.splitdrive", "os.curdir", "os.pardir", "os.fdopen", "os.close", "os.fsync",
    "pathlib.Path", "pathlib.PurePath", "pathlib.Path.home", "pathlib.Path.cwd", "pathlib.PurePosixPath",
    "pathlib.PureWindowsPath",
    "io.StringIO", "io.BytesIO", "io.TextIOWrapper", "io.BufferedReader", "io.DEFAULT_BUFFER_SIZE",
    "shutil.get_terminal_size", "shutil.which", "shutil.disk_usage",
    "ctypes.windll.kernel32", "ctypes.windll.kernel32.SetConsoleMode", "ctypes.windll.kernel32.GetStdHandle",
    "ctypes.windll",
} | FS_READING

WRITE_MODE_CHARS = set("wax+")


def mode_is_write(mode):
    """True / False / None (non-constant)."""
    if mode is None:
        return None
    return bool(set(mode) & WRITE_MODE_CHARS)


class Effect:
    """One primitive effect at one call site."""
    __slots__ = ("kind", "prim", "site", "fn", "args", "detail")

    def __init__(self, kind, prim, site, fn, args, detail=""):
        self.kind = kind      # 'fs-write' | 'fs-write?' (undecided) | 'fs-read' | 'clock' | 'cwd' | 'enum' | 'random'
        self.prim = prim
        self.site = site      # ast node
        self.fn = fn
        self.args = args      # list of written path arg exprs
        self.detail = detail

    def text(self):
        return "%s %s at %s line %s: %s" % (self.kind, self.prim, self.fn.qual if self.fn else "<module>",
                                             getattr(self.site, "lineno", "?"), ast.unparse(self.site)[:100])


def classify_site(site, res):
    """List of Effects produced directly by a CallSite."""
    out = []
    call = site.node
    if not isinstance(call, ast.Call):
        return out
    fn = site.fn
    for t in site.targets:
        if t[0] == "ext":
            d = t[1]
            if d in ("builtins.open", "io.open", "codecs.open"):
                mode = open_mode(call)
                w = mode_is_write(mode)
                path = call.args[0] if call.args else None
                if w is None:
                    out.append(Effect("fs-write?", d, call, fn, [path], "non-constant mode"))
                elif w:
                    out.append(Effect("fs-write", d, call, fn, [path], "mode=%r" % mode))
                else:
                    out.append(Effect("fs-read", d, call, fn, [path], "mode=%r" % mode))
            elif d in FS_MUTATING:
                roles = FS_MUTATING[d]
                args = [call.args[i] for i in roles if i < len(call.args)]
                if d == "logging.basicConfig":
                    continue
                out.append(Effect("fs-write", d, call, fn, args))
            elif d == "logging.basicConfig":
                for kw in call.keywords:
                    if kw.arg in ("filename", "handlers") or kw.arg is None:
                        out.append(Effect("fs-write", d + "(filename=)", call, fn, [kw.value]))
            elif d in CLOCK:
                out.append(Effect("clock", d, call, fn, []))
            elif d in CWD:
                out.append(Effect("cwd", d, call, fn, []))
                out.append(Effect("fs-read", d, call, fn, []))
            elif d in RANDOM:
                out.append(Effect("random", d, call, fn, []))
            elif d in ENUM_SOURCES:
                out.append(Effect("enum", d, call, fn, []))
                out.append(Effect("fs-read", d, call, fn, []))
            elif d in FS_READING:
                out.append(Effect("fs-read", d, call, fn, []))
            elif d in BENIGN:
                pass
            else:
                for w in WATCHED_MODULES:
                    if d == w or d.startswith(w + "."):
                        out.append(Effect("fs-write?", d, call, fn, list(call.args), "unclassified member of watched module"))
                        break
        elif t[0] == "bmeth":
            base, name = t[1], t[2]
            if base[0] == "path":
                if name in PATH_MUTATING_METHODS:
                    out.append(Effect("fs-write", "Path." + name, call, fn, [call.func.value]))
                elif name == "open":
                    mode = open_mode(call, 0)
                    w = mode_is_write(mode)
                    kind = "fs-write?" if w is None else ("fs-write" if w else "fs-read")
                    out.append(Effect(kind, "Path.open", call, fn, [call.func.value], "mode=%r" % mode))
                elif name in ENUM_METHODS:
                    out.append(Effect("enum", "Path." + name, call, fn, []))
                    out.append(Effect("fs-read", "Path." + name, call, fn, []))
                elif name in ("is_file", "is_dir", "exists", "stat", "read_bytes", "read_text", "resolve"):
                    out.append(Effect("fs-read", "Path." + name, call, fn, []))
            elif base[0] == "file":
                if name in FILE_WRITE_METHODS:
                    w = mode_is_write(base[1])
                    if w or w is None:
                        out.append(Effect("fs-write" if w else "fs-write?", "file." + name, call, fn, [call.func.value], "mode=%r" % (base[1],)))
                    # write on a file opened read-only raises; not a mutation
            elif base[0] == "extinst":
                d = base[1] + "." + name
                if d in ("configparser.ConfigParser.write", "configparser.RawConfigParser.write"):
                    out.append(Effect("fs-write", d, call, fn, list(call.args)))
                elif d in ("configparser.ConfigParser.read",):
                    out.append(Effect("fs-read", d, call, fn, []))
                elif base[1].startswith(("tempfile.", "zipfile.", "tarfile.", "shelve.", "sqlite3.", "dbm.")):
                    out.append(Effect("fs-write?", d, call, fn, []))
        elif t[0] == "umeth":
            name = t[1]
            if name in PATH_MUTATING_METHODS - {"replace", "rename"}:
                out.append(Effect("fs-write?", "?." + name, call, fn, [call.func.value], "unresolved receiver"))
            elif name in ("write_text", "write_bytes"):
                out.append(Effect("fs-write?", "?." + name, call, fn, [call.func.value], "unresolved receiver"))
            elif name in ("writelines", "truncate"):
                out.append(Effect("fs-write?", "?." + name, call, fn, [call.func.value], "unresolved receiver"))
            elif name == "write":
                out.append(Effect("fs-write?", "?.write", call, fn, [call.func.value], "unresolved receiver"))
    # several targets may classify the same call twice
    uniq = []
    seen = set()
    for e in out:
        k = (e.kind, e.prim)
        if k not in seen:
            seen.add(k)
            uniq.append(e)
    return uniq


class EffectSummary:
    def __init__(self, prog, cg):
        self.prog = prog
        self.cg = cg
        self.direct = {}
        for fn, sites in cg.sites.items():
            effs = []
            for s in sites:
                effs.extend(classify_site(s, cg.res))
            self.direct[fn] = effs
        self.module_direct = {}
        for mod, sites in cg.module_sites.items():
            effs = []
            for s in sites:
                effs.extend(classify_site(s, cg.res))
            self.module_direct[mod] = effs

    def reachable_effects(self, entries, kinds=("fs-write", "fs-write?")):
        """[(Effect, chain)] for effects of the given kinds reachable from entries."""
        reach = self.cg.reachable(entries)
        out = []
        for fn, chain in reach.items():
            for e in self.direct.get(fn, []):
                if e.kind in kinds:
                    out.append((e, chain))
        return out, reach
