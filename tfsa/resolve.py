"""Resolver: light, flow-insensitive, over-approximating kind inference.

Kinds (tuples):
  ('func', Func) ('class', Class) ('inst', Class) ('mod', dotted) ('ext', dotted)
  ('file', mode|None) ('path',) ('hash', algo) ('gen', Func)
  ('extinst', dotted) ('bmeth', basekind, name) ('umeth', name)
  ('str',) ('bytes',) ('int',) ('float',) ('bool',) ('none',) ('list',) ('dict',) ('set',) ('tuple',)
  ('unknown',)
"""
import ast
import builtins

from .loader import own_nodes, AnalysisError

UNKNOWN = ("unknown",)
BUILTIN_NAMES = set(dir(builtins))

SIMPLE_ANN = {
    "str": ("str",), "int": ("int",), "bytes": ("bytes",), "bytearray": ("bytes",),
    "list": ("list",), "dict": ("dict",), "set": ("set",), "tuple": ("tuple",),
    "bool": ("bool",), "float": ("float",), "List": ("list",), "Tuple": ("tuple",),
}

# external callables -> result kind
EXT_RESULT = {
    "builtins.str": ("str",), "builtins.int": ("int",), "builtins.len": ("int",),
    "builtins.bytes": ("bytes",), "builtins.bytearray": ("bytes",), "builtins.list": ("list",),
    "builtins.dict": ("dict",), "builtins.set": ("set",), "builtins.sorted": ("list",),
    "builtins.tuple": ("tuple",), "builtins.float": ("float",), "builtins.bool": ("bool",),
    "builtins.sum": ("int",), "builtins.min": ("int",), "builtins.max": ("int",), "builtins.abs": ("int",),
    "builtins.isinstance": ("bool",), "builtins.hasattr": ("bool",), "builtins.input": ("str",),
    "builtins.range": ("list",), "builtins.enumerate": ("list",), "builtins.zip": ("list",),
    "builtins.vars": ("dict",), "builtins.chr": ("str",), "builtins.any": ("bool",), "builtins.all": ("bool",),
    "os.path.join": ("str",), "os.path.basename": ("str",), "os.path.dirname": ("str",),
    "os.path.abspath": ("str",), "os.path.realpath": ("str",), "os.path.relpath": ("str",),
    "os.path.normpath": ("str",), "os.path.commonpath": ("str",), "os.getcwd": ("str",),
    "os.path.split": ("tuple",), "os.path.exists": ("bool",), "os.path.isfile": ("bool",),
    "os.path.isdir": ("bool",), "os.path.getsize": ("int",), "os.listdir": ("list",),
    "pathlib.Path": ("path",), "pathlib.Path.home": ("path",), "pathlib.PurePath": ("path",),
    "hashlib.sha1": ("hash", "sha1"), "hashlib.sha256": ("hash", "sha256"), "hashlib.md5": ("hash", "md5"),
    "pyben.load": ("dict",), "pyben.loads": ("dict",), "pyben.dumps": ("bytes",),
    "urllib.parse.quote": ("str",), "urllib.parse.quote_plus": ("str",),
    "math.ceil": ("int",), "math.log2": ("float",), "math.floor": ("int",),
    "time.time": ("float",),
}
OPEN_FUNCS = {"builtins.open", "io.open", "codecs.open", "os.fdopen"}


def const_str(node):
    if isinstance(node, ast.Constant) and isinstance(node.value, str):
        return node.value
    return None


def open_mode(call, pos=1):
    """Constant mode of an open()-like call: str, or None if non constant. Default 'r'."""
    mode = None
    if len(call.args) > pos:
        mode = call.args[pos]
    for kw in call.keywords:
        if kw.arg == "mode":
            mode = kw.value
        if kw.arg is None:
            return None
    if mode is None:
        return "r"
    return const_str(mode)


class Resolver:
    def __init__(self, prog):
        self.prog = prog
        self._bind_cache = {}
        self._attr_cache = {}
        self._ret_cache = {}
        self._param_cache = {}
        self._active = set()
        self._callsites = None

    def _fdopen_mode(self, call, fn, mod):
        """Effective mode of os.fdopen(fd, mode): whether the file starts empty is decided by the flags of the os.open that
        produced the descriptor, not by the mode string.  Unknown descriptor origin -> None (non constant)."""
        mode = open_mode(call)
        if mode is None or not call.args:
            return None
        if not any(c in mode for c in "wax+"):
            return mode
        src = call.args[0]
        if isinstance(src, ast.Name) and fn is not None:
            vals = [p for w, p in self.bindings(fn).get(src.id, []) if w == "value"]
            unp = [p for w, p in self.bindings(fn).get(src.id, []) if w == "unpack"]
            if len(vals) == 1 and not unp:
                src = vals[0]
            elif len(unp) == 1 and not vals and isinstance(unp[0][0], ast.Call):
                # fd, path = tempfile.mkstemp(...): a fresh, empty file
                tg = {t[1] for t in self.call_targets(unp[0][0], fn, mod) if t[0] == "ext"}
                if tg & {"tempfile.mkstemp"} and unp[0][1] == 0:
                    return mode.replace("w", "x") if "w" in mode else mode
                return None
            else:
                return None
        if not isinstance(src, ast.Call):
            return None
        tg = {t[1] for t in self.call_targets(src, fn, mod) if t[0] == "ext"}
        if "os.open" not in tg or len(src.args) < 2:
            return None
        flags = set()
        fexpr = src.args[1]
        if isinstance(fexpr, ast.Name) and fn is not None:
            vals = [p for w, p in self.bindings(fn).get(fexpr.id, [])]
            kinds = {w for w, p in self.bindings(fn).get(fexpr.id, [])}
            if len(vals) != 1 or kinds != {"value"}:
                return None
            fexpr = vals[0]
        for x in ast.walk(fexpr):
            if isinstance(x, ast.Attribute) and x.attr.startswith("O_"):
                flags.add(x.attr)
            elif isinstance(x, ast.Name) and x.id.startswith("O_"):
                flags.add(x.id)
            elif isinstance(x, (ast.Name, ast.Call)) and not (isinstance(x, ast.Name) and x.id in ("os", "getattr")):
                if isinstance(x, ast.Call) and isinstance(x.func, ast.Name) and x.func.id == "getattr":
                    continue        # getattr(os, "O_BINARY", 0)
                return None         # flags not constant
        rest = mode.replace("w", "").replace("a", "").replace("x", "")
        if "O_TRUNC" in flags or ("O_EXCL" in flags and "O_CREAT" in flags):
            return "w" + rest
        if "O_APPEND" in flags:
            return "a" + rest
        return "r+" + rest.replace("+", "")

    # ------------------------------------------------------------------ bindings
    def bindings(self, fn):
        """name -> list of (kind_of_binding, payload) inside function fn."""
        if fn in self._bind_cache:
            return self._bind_cache[fn]
        b = {}

        def add(name, what, payload):
            b.setdefault(name, []).append((what, payload))

        for p in fn.all_params():
            add(p, "param", p)
        for n in own_nodes(fn.node):
            if isinstance(n, ast.Assign):
                for t in n.targets:
                    self._bind_target(t, n.value, add)
            elif isinstance(n, ast.AnnAssign) and n.value is not None:
                self._bind_target(n.target, n.value, add)
            elif isinstance(n, ast.AugAssign):
                if isinstance(n.target, ast.Name):
                    add(n.target.id, "aug", n)
            elif isinstance(n, (ast.For, ast.comprehension)):
                self._bind_iter(n.target, n.iter, add)
            elif isinstance(n, ast.With):
                for it in n.items:
                    if it.optional_vars is not None and isinstance(it.optional_vars, ast.Name):
                        add(it.optional_vars.id, "with", it.context_expr)
            elif isinstance(n, ast.ExceptHandler) and n.name:
                add(n.name, "except", n.type)
            elif isinstance(n, ast.NamedExpr):
                add(n.target.id, "value", n.value)
            elif isinstance(n, (ast.Import, ast.ImportFrom)):
                for al in n.names:
                    add(al.asname or al.name.split(".")[0], "import", al)
        # nested defs
        for q, f in self.prog.functions.items():
            if getattr(f, "outer_fn", None) is fn:
                add(f.name, "def", f)
        self._bind_cache[fn] = b
        return b

    def _bind_target(self, target, value, add):
        if isinstance(target, ast.Name):
            add(target.id, "value", value)
        elif isinstance(target, (ast.Tuple, ast.List)):
            if isinstance(value, (ast.Tuple, ast.List)) and len(value.elts) == len(target.elts):
                for t, v in zip(target.elts, value.elts):
                    self._bind_target(t, v, add)
            else:
                for i, t in enumerate(target.elts):
                    if isinstance(t, ast.Name):
                        add(t.id, "unpack", (value, i, len(target.elts)))
                    elif isinstance(t, ast.Starred) and isinstance(t.value, ast.Name):
                        add(t.value.id, "unpack", (value, None, len(target.elts)))

    def _bind_iter(self, target, it, add):
        if isinstance(target, ast.Name):
            add(target.id, "iter", it)
        elif isinstance(target, (ast.Tuple, ast.List)):
            for i, t in enumerate(target.elts):
                if isinstance(t, ast.Name):
                    add(t.id, "iterunpack", (it, i))
                elif isinstance(t, (ast.Tuple, ast.List)):
                    for tt in ast.walk(t):
                        if isinstance(tt, ast.Name):
                            add(tt.id, "iterunpack", (it, None))

    # ------------------------------------------------------------------ kinds
    def kinds(self, expr, fn, mod=None):
        """Set of kinds the expression may evaluate to (in function fn / module mod)."""
        mod = mod or (fn.module if fn else None)
        key = (id(expr), fn)
        if key in self._active:
            return {UNKNOWN}
        self._active.add(key)
        try:
            return self._kinds(expr, fn, mod)
        finally:
            self._active.discard(key)

    def _kinds(self, e, fn, mod):
        if isinstance(e, ast.Constant):
            v = e.value
            if isinstance(v, bool):
                return {("bool",)}
            if isinstance(v, str):
                return {("str",)}
            if isinstance(v, bytes):
                return {("bytes",)}
            if isinstance(v, int):
                return {("int",)}
            if isinstance(v, float):
                return {("float",)}
            if v is None:
                return {("none",)}
            return {UNKNOWN}
        if isinstance(e, (ast.JoinedStr,)):
            return {("str",)}
        if isinstance(e, (ast.List, ast.ListComp)):
            return {("list",)}
        if isinstance(e, (ast.Dict, ast.DictComp)):
            return {("dict",)}
        if isinstance(e, (ast.Set, ast.SetComp)):
            return {("set",)}
        if isinstance(e, ast.Tuple):
            return {("tuple",)}
        if isinstance(e, ast.GeneratorExp):
            return {("list",)}
        if isinstance(e, (ast.Compare,)):
            return {("bool",)}
        if isinstance(e, ast.UnaryOp):
            if isinstance(e.op, ast.Not):
                return {("bool",)}
            return self.kinds(e.operand, fn, mod)
        if isinstance(e, ast.BoolOp):
            out = set()
            for v in e.values:
                out |= self.kinds(v, fn, mod)
            return out
        if isinstance(e, ast.IfExp):
            return self.kinds(e.body, fn, mod) | self.kinds(e.orelse, fn, mod)
        if isinstance(e, ast.NamedExpr):
            return self.kinds(e.value, fn, mod)
        if isinstance(e, ast.Await):
            return {UNKNOWN}
        if isinstance(e, ast.Starred):
            return self.kinds(e.value, fn, mod)
        if isinstance(e, ast.BinOp):
            lk = self.kinds(e.left, fn, mod)
            rk = self.kinds(e.right, fn, mod)
            out = set()
            if isinstance(e.op, ast.Div) and (("path",) in lk or ("path",) in rk):
                out.add(("path",))
            for k in lk | rk:
                if k[0] in ("str", "bytes", "int", "float", "list", "tuple", "set", "dict"):
                    out.add(k)
            if isinstance(e.op, ast.Mod) and ("str",) in lk:
                return {("str",)}
            return out or {UNKNOWN}
        if isinstance(e, ast.Subscript):
            bk = self.kinds(e.value, fn, mod)
            out = set()
            if isinstance(e.slice, ast.Slice):
                for k in bk:
                    if k[0] in ("str", "bytes", "list", "tuple"):
                        out.add(k)
                return out or {UNKNOWN}
            for k in bk:
                if k[0] == "str":
                    out.add(("str",))
                elif k[0] == "bytes":
                    out.add(("int",))
            if not out and isinstance(e.value, ast.Attribute) and isinstance(e.value.value, ast.Name) and fn is not None and fn.cls is not None \
                    and e.value.value.id == fn.self_name and any(k[0] in ("list", "tuple") for k in bk):
                # self.items[i]: an element of a list attribute of the receiver
                ek = self.attr_elem_kinds(fn.cls, e.value.attr)
                if ek and UNKNOWN not in ek:
                    return ek
            return out or {UNKNOWN}
        if isinstance(e, ast.Name):
            return self._name_kinds(e.id, fn, mod)
        if isinstance(e, ast.Attribute):
            out = set()
            missing = False
            for k in self.kinds(e.value, fn, mod):
                ak = self.attr_kinds(k, e.attr)
                if k[0] in ("inst", "class") and ak == {("umeth", e.attr)}:
                    # a package class that has no such attribute at all (an abstract base: the subclasses define it):
                    # the access raises AttributeError there and contributes no value
                    missing = True
                    continue
                out |= ak
            if not out and missing:
                out = {("umeth", e.attr)}
            return out or {UNKNOWN}
        if isinstance(e, ast.Call):
            return self._call_kinds(e, fn, mod)
        if isinstance(e, ast.Lambda):
            return {("lambda", e)}
        if isinstance(e, (ast.Yield, ast.YieldFrom)):
            return {UNKNOWN}
        return {UNKNOWN}

    # ..................................................................
    def _name_kinds(self, name, fn, mod):
        f = fn
        while f is not None:
            b = self.bindings(f)
            if name in b:
                out = set()
                for what, payload in b[name]:
                    out |= self._binding_kinds(what, payload, f, name)
                return out or {UNKNOWN}
            f = getattr(f, "outer_fn", None)
        return self.module_name_kinds(mod, name)

    def module_name_kinds(self, mod, name):
        if mod is None:
            return {UNKNOWN}
        if name in mod.functions:
            fobj = mod.functions[name]
            return self._decorated(fobj)
        if name in mod.classes:
            return {("class", mod.classes[name])}
        if name in mod.assigns:
            out = set()
            for v in mod.assigns[name]:
                out |= self.kinds(v, None, mod)
            return out
        if name in mod.imports:
            return self.dotted_kinds(mod.imports[name])
        if name in BUILTIN_NAMES:
            return {("ext", "builtins." + name)}
        return {UNKNOWN}

    def _decorated(self, fobj):
        """Kinds of the module-level name bound by a (possibly decorated) def."""
        kinds = {("func", fobj)}
        for d in reversed(fobj.decorators):
            if isinstance(d, ast.Name) and d.id in ("staticmethod", "classmethod", "property"):
                continue
            dk = self.kinds(d, None, fobj.module)
            if isinstance(d, ast.Call):
                # @functools.lru_cache(maxsize=...) and the like: a decorator factory of the standard library wraps
                fk = self.kinds(d.func, None, fobj.module)
                if fk and all(k[0] == "ext" and k[1].split(".")[0] in ("functools", "contextlib", "typing") for k in fk):
                    dk = fk
            new = set()
            for k in dk:
                if k[0] == "class":
                    new.add(("inst", k[1]))
                    new |= kinds          # the wrapper instance forwards to the function it wraps
                elif k[0] == "ext":
                    # external decorator: assume it wraps (functools.wraps etc.)
                    new |= kinds
                    new.add(("extdecorated", k[1]))
                else:
                    new.add(UNKNOWN)
            kinds = new or kinds
        return kinds

    def dotted_kinds(self, dotted):
        r = self.prog.resolve_dotted(dotted)
        if r is None:
            head = dotted.split(".")[0]
            if head == self.prog.PKG:
                return {UNKNOWN}
            return {("ext", dotted)}
        if r[0] == "mod":
            return {("mod", r[1].name)}
        if r[0] == "func":
            return self._decorated(r[1])
        if r[0] == "class":
            return {("class", r[1])}
        if r[0] == "modattr":
            return self.module_name_kinds(r[1], r[2])
        if r[0] == "ext":
            return {("ext", r[1])}
        return {UNKNOWN}

    def _binding_kinds(self, what, payload, fn, name):
        if what == "param":
            return self.param_kinds(fn, name)
        if what == "value":
            return self.kinds(payload, fn)
        if what == "def":
            return {("func", payload)}
        if what == "with":
            out = set()
            for k in self.kinds(payload, fn):
                if k[0] == "inst":
                    m = self.prog.find_method(k[1], "__enter__")
                    if m:
                        out |= self.return_kinds(m)
                    else:
                        out.add(k)
                else:
                    out.add(k)
            return out
        if what == "iter":
            return self.iter_elem_kinds(payload, fn)
        if what == "unpack":
            value, idx, n = payload
            out = set()
            for k in self.kinds(value, fn):
                pass
            # element-wise through package function returns
            if isinstance(value, ast.Call):
                for tk in self.kinds(value.func, fn):
                    if tk[0] == "func" and idx is not None:
                        for r in self.return_exprs(tk[1]):
                            if isinstance(r, ast.Tuple) and len(r.elts) == n:
                                out |= self.kinds(r.elts[idx], tk[1])
                            else:
                                out.add(UNKNOWN)
            return out or {UNKNOWN}
        if what == "except":
            return {("extinst", "exception")}
        if what == "aug":
            return {UNKNOWN}
        if what == "import":
            al = payload
            return self.dotted_kinds(al.name if al.asname else al.name.split(".")[0])
        return {UNKNOWN}

    def iter_elem_kinds(self, it, fn):
        out = set()
        # elements of Path.glob / rglob / iterdir are paths
        if isinstance(it, ast.Call) and isinstance(it.func, ast.Attribute) and it.func.attr in ("glob", "rglob", "iterdir") \
                and any(k == ("path",) for k in self.kinds(it.func.value, fn)):
            return {("path",)}
        if isinstance(it, ast.Call) and isinstance(it.func, ast.Name) and it.func.id in ("sorted", "list", "tuple", "reversed") and it.args:
            inner = it.args[0]
            if isinstance(inner, ast.Call) and isinstance(inner.func, ast.Attribute) and inner.func.attr in ("glob", "rglob", "iterdir") \
                    and any(k == ("path",) for k in self.kinds(inner.func.value, fn)):
                return {("path",)}
        # elements of a list attribute of the receiver: what the methods of the class put into it
        if isinstance(it, ast.Attribute) and isinstance(it.value, ast.Name) and fn is not None and fn.cls is not None and it.value.id == fn.self_name:
            ek = self.attr_elem_kinds(fn.cls, it.attr)
            if ek and UNKNOWN not in ek:
                return ek
        for k in self.kinds(it, fn):
            if k[0] == "inst":
                m = self.prog.find_method(k[1], "__next__")
                if m:
                    out |= self.return_kinds(m)
                    continue
                m = self.prog.find_method(k[1], "__iter__")
                if m and m.is_generator:
                    out.add(UNKNOWN)
                    continue
            out.add(UNKNOWN)
        return out or {UNKNOWN}

    def attr_elem_kinds(self, cls, attr):
        """Kinds of the elements of the list kept in `self.<attr>`: from `self.attr.append(E)`, `self.attr = [E for ..]`,
        `self.attr = [E, ..]`, `self.attr += [E]` in the class family.  Empty set when nothing is known."""
        key = ("elem", cls, attr)
        if key in self._attr_cache:
            return self._attr_cache[key]
        self._attr_cache[key] = set()
        out = set()
        related = set(self.prog.mro(cls)) | set(self.prog.subclasses(cls))
        for c in related:
            for m in c.methods.values():
                sn = m.self_name
                if not sn:
                    continue

                def is_attr(x):
                    return isinstance(x, ast.Attribute) and x.attr == attr and isinstance(x.value, ast.Name) and x.value.id == sn
                for n in own_nodes(m.node):
                    if isinstance(n, ast.Call) and isinstance(n.func, ast.Attribute) and n.func.attr in ("append", "add") and is_attr(n.func.value) and n.args:
                        out |= self.kinds(n.args[0], m)
                    elif isinstance(n, ast.Assign) and any(is_attr(t) for t in n.targets) or (isinstance(n, ast.AugAssign) and is_attr(n.target)):
                        v = n.value
                        if isinstance(v, (ast.ListComp, ast.GeneratorExp)):
                            out |= self.kinds(v.elt, m)
                        elif isinstance(v, (ast.List, ast.Tuple)):
                            for e in v.elts:
                                out |= self.kinds(e, m)
                        elif isinstance(v, ast.Call) and isinstance(v.func, ast.Name) and v.func.id in ("list", "tuple") and not v.args:
                            pass
                        else:
                            out.add(UNKNOWN)
        self._attr_cache[key] = out
        return out

    # ..................................................................
    def param_kinds(self, fn, name):
        key = (fn, name)
        if key in self._param_cache:
            return self._param_cache[key]
        self._param_cache[key] = {UNKNOWN}
        out = set()
        if fn.cls is not None and name == fn.self_name:
            if fn.is_classmethod:
                out = {("class", c) for c in self.prog.subclasses(fn.cls)}
            else:
                out = {("inst", c) for c in self.prog.subclasses(fn.cls)}
            self._param_cache[key] = out
            return out
        ann = fn.annotation(name)
        if ann is not None:
            out |= self._ann_kinds(ann, fn.module)
        d = fn.defaults().get(name)
        if d is not None:
            dk = self.kinds(d, None, fn.module)
            out |= {k for k in dk if k != ("none",)}
        # call sites
        for caller, call, bound in self.callsites_of(fn):
            arg = bound.get(name)
            if arg is not None:
                out |= self.kinds(arg, caller, caller.module if caller else fn.module)
        out.discard(("none",))
        if not out:
            out = {UNKNOWN}
        self._param_cache[key] = out
        return out

    def _ann_kinds(self, ann, mod):
        if isinstance(ann, ast.Name):
            if ann.id in SIMPLE_ANN:
                return {SIMPLE_ANN[ann.id]}
            r = self.module_name_kinds(mod, ann.id)
            # an annotation naming an external class (argparse.Namespace, os.PathLike ...): an instance of it
            return {("inst", k[1]) for k in r if k[0] == "class"} | {("extinst", k[1]) for k in r if k[0] == "ext"}
        if isinstance(ann, ast.Constant) and isinstance(ann.value, str):
            if ann.value in SIMPLE_ANN:
                return {SIMPLE_ANN[ann.value]}
            r = self.module_name_kinds(mod, ann.value)
            return {("inst", k[1]) for k in r if k[0] == "class"}
        if isinstance(ann, ast.Subscript):
            return self._ann_kinds(ann.value, mod)
        return set()

    def callsites_of(self, fn):
        """[(caller Func|None, Call node, {param: arg expr})] for package call sites of fn."""
        if self._callsites is None:
            self._callsites = {}
            self._building = True
            for caller in list(self.prog.functions.values()):
                for n in own_nodes(caller.node):
                    if isinstance(n, ast.Call):
                        self._record_callsite(caller, n, caller.module)
            for mod in self.prog.modules.values():
                for n in self._module_level_nodes(mod):
                    if isinstance(n, ast.Call):
                        self._record_callsite(None, n, mod)
            # decorators used as constructors:  @Memo  def f -> Memo(f)
            for f in self.prog.functions.values():
                for d in f.decorators:
                    for k in self.kinds(d, None, f.module):
                        if k[0] == "class":
                            init = self.prog.find_method(k[1], "__init__")
                            if init and len(init.params) > 1:
                                fake = ast.Name(id=f.name, ctx=ast.Load())
                                self._fake_defs = getattr(self, "_fake_defs", {})
                                self._fake_defs[id(fake)] = f
                                self._callsites.setdefault(init, []).append((None, None, {init.params[1]: fake, "__mod__": f.module}))
            self._building = False
        return self._callsites.get(fn, [])

    def _module_level_nodes(self, mod):
        stack = list(mod.tree.body)
        while stack:
            n = stack.pop()
            if isinstance(n, (ast.FunctionDef, ast.AsyncFunctionDef, ast.ClassDef)):
                if isinstance(n, ast.ClassDef):
                    stack.extend(x for x in n.body if not isinstance(x, (ast.FunctionDef, ast.AsyncFunctionDef)))
                continue
            yield n
            stack.extend(ast.iter_child_nodes(n))

    def _record_callsite(self, caller, call, mod):
        try:
            tks = self._callee_kinds_shallow(call.func, caller, mod)
        except RecursionError:
            return
        for k in tks:
            target = None
            skip_self = False
            if k[0] == "func":
                target = k[1]
                skip_self = target.cls is not None and not target.is_static
                # explicit unbound call  Class.method(obj, ...) : rare; if accessed through class and not classmethod
                if skip_self and isinstance(call.func, ast.Attribute):
                    bk = self._callee_kinds_shallow(call.func.value, caller, mod)
                    if any(b[0] == "class" for b in bk) and not target.is_classmethod and not any(b[0] == "inst" for b in bk):
                        skip_self = False
            elif k[0] == "class":
                target = self.prog.find_method(k[1], "__init__")
                skip_self = True
            elif k[0] == "inst":
                target = self.prog.find_method(k[1], "__call__")
                skip_self = True
            if target is None:
                continue
            bound = self.bind_args(target, call, skip_self)
            self._callsites.setdefault(target, []).append((caller, call, bound))

    def _callee_kinds_shallow(self, func_expr, caller, mod):
        return self.kinds(func_expr, caller, mod)

    def bind_args(self, target, call, skip_self):
        params = list(target.params)
        if skip_self and params:
            params = params[1:]
        bound = {}
        pos = 0
        for a in call.args:
            if isinstance(a, ast.Starred):
                bound["*"] = a.value
                continue
            if pos < len(params):
                bound[params[pos]] = a
            elif target.vararg:
                bound.setdefault("*" + target.vararg, []).append(a)
            pos += 1
        for kw in call.keywords:
            if kw.arg is None:
                bound["**"] = kw.value
            else:
                bound[kw.arg] = kw.value
        return bound

    # ..................................................................
    def return_exprs(self, fn):
        return [n.value for n in own_nodes(fn.node) if isinstance(n, ast.Return) and n.value is not None]

    def return_kinds(self, fn):
        if fn in self._ret_cache:
            return self._ret_cache[fn]
        self._ret_cache[fn] = {UNKNOWN}
        if fn.is_generator:
            out = {("gen", fn)}
        else:
            out = set()
            for r in self.return_exprs(fn):
                out |= self.kinds(r, fn)
            if not out:
                out = {("none",)}
        self._ret_cache[fn] = out
        return out

    def _call_kinds(self, call, fn, mod):
        out = set()
        # type(obj): the class(es) of obj
        if isinstance(call.func, ast.Name) and call.func.id == "type" and len(call.args) == 1 and not call.keywords \
                and ("ext", "builtins.type") in self.kinds(call.func, fn, mod):
            ck = {("class", k[1]) for k in self.kinds(call.args[0], fn, mod) if k[0] == "inst"}
            if ck:
                return ck
        for k in self.kinds(call.func, fn, mod):
            out |= self.call_result(k, call, fn, mod)
        return out or {UNKNOWN}

    def call_result(self, k, call, fn, mod):
        t = k[0]
        if t == "class":
            return {("inst", k[1])}
        if t == "func":
            return self.return_kinds(k[1])
        if t == "inst":
            m = self.prog.find_method(k[1], "__call__")
            return self.return_kinds(m) if m else {UNKNOWN}
        if t == "lambda":
            return self.kinds(k[1].body, fn, mod)
        if t == "ext":
            d = k[1]
            if d == "os.fdopen":
                return {("file", self._fdopen_mode(call, fn, mod))}
            if d in OPEN_FUNCS:
                return {("file", open_mode(call))}
            if d in EXT_RESULT:
                return {EXT_RESULT[d]}
            return {("extinst", d)}
        if t == "bmeth":
            base, name = k[1], k[2]
            if base[0] == "path":
                if name == "open":
                    return {("file", open_mode(call, 0))}
                if name in ("resolve", "absolute", "joinpath", "with_suffix", "with_name", "expanduser", "relative_to"):
                    return {("path",)}
                if name in ("iterdir", "glob", "rglob"):
                    return {("list",)}
                if name in ("is_file", "is_dir", "exists"):
                    return {("bool",)}
                if name in ("read_text", "as_posix", "__str__"):
                    return {("str",)}
                if name == "read_bytes":
                    return {("bytes",)}
                return {UNKNOWN}
            if base[0] == "hash":
                if name == "digest":
                    return {("bytes",)}
                if name == "hexdigest":
                    return {("str",)}
                if name == "copy":
                    return {base}
                return {("none",)}
            if base[0] == "str":
                if name in ("split", "splitlines", "rsplit"):
                    return {("list",)}
                if name in ("encode",):
                    return {("bytes",)}
                if name in ("startswith", "endswith", "isdigit", "isdecimal", "isnumeric"):
                    return {("bool",)}
                return {("str",)}
            if base[0] == "bytes":
                if name in ("decode", "hex"):
                    return {("str",)}
                return {("bytes",)}
            if base[0] == "dict":
                if name in ("items", "keys", "values"):
                    return {("list",)}
                if name == "copy":
                    return {("dict",)}
                return {UNKNOWN}
            if base[0] == "list":
                if name == "copy":
                    return {("list",)}
                return {UNKNOWN}
            if base[0] == "file":
                if name == "read":
                    return {("bytes",), ("str",)}
                if name in ("readinto", "write", "seek", "tell"):
                    return {("int",)}
                if name == "__enter__":
                    return {base}
                return {UNKNOWN}
            if base[0] == "extinst":
                return {("extinst", base[1] + "." + name)}
            return {UNKNOWN}
        if t == "extdecorated":
            return {UNKNOWN}
        return {UNKNOWN}

    # ------------------------------------------------------------------ attributes
    def attr_kinds(self, k, attr):
        t = k[0]
        if t == "mod":
            name = k[1]
            if name in self.prog.modules:
                return self.module_name_kinds(self.prog.modules[name], attr)
            return {("ext", name + "." + attr)}
        if t == "ext":
            return self.dotted_kinds(k[1] + "." + attr) if k[1].split(".")[0] == self.prog.PKG else {("ext", k[1] + "." + attr)}
        if t in ("inst", "class"):
            return self.class_attr_kinds(k[1], attr, instance=(t == "inst"))
        if t in ("file", "path", "hash", "str", "bytes", "list", "dict", "set", "tuple", "int", "float", "extinst", "gen"):
            if t == "path" and attr in ("parent",):
                return {("path",)}
            if t == "path" and attr in ("name", "stem", "suffix"):
                return {("str",)}
            if t == "path" and attr == "parts":
                return {("tuple",)}
            pyt = {"str": str, "bytes": bytes, "list": list, "dict": dict, "set": set, "tuple": tuple, "int": int, "float": float}.get(t)
            if pyt is not None and not hasattr(pyt, attr) and not hasattr(bytearray if t == "bytes" else pyt, attr):
                return set()        # no such attribute on a value of that builtin type: this alternative cannot execute
            return {("bmeth", k, attr)}
        return {("umeth", attr)}

    def class_attr_kinds(self, cls, attr, instance=True):
        key = (cls, attr, instance)
        if key in self._attr_cache:
            return self._attr_cache[key]
        self._attr_cache[key] = {UNKNOWN}
        out = set()
        mro = self.prog.mro(cls)
        # methods / nested classes / class-level assignments: first hit in MRO wins for methods
        for c in mro:
            if attr in c.methods:
                out.add(("func", c.methods[attr]))
                break
            if attr in c.nested:
                out.add(("class", c.nested[attr]))
                break
            if attr in c.class_assigns:
                for v in c.class_assigns[attr]:
                    out |= self.kinds(v, None, c.module)
                break
        # attribute stores  self.attr = v / cls.attr = v  anywhere in the MRO (and subclasses' methods,
        # since the receiver object may be an instance of a subclass)
        related = set(mro)
        for c in self.prog.subclasses(cls):
            related.add(c)
        for c in related:
            for m in c.methods.values():
                sn = m.self_name
                if not sn:
                    continue
                for n in own_nodes(m.node):
                    tv = None
                    if isinstance(n, ast.Assign):
                        for t in n.targets:
                            for tgt, val in self._flatten_target(t, n.value):
                                if isinstance(tgt, ast.Attribute) and isinstance(tgt.value, ast.Name) and tgt.value.id == sn and tgt.attr == attr:
                                    if val is None:
                                        out.add(UNKNOWN)
                                    else:
                                        out |= self.kinds(val, m)
                    elif isinstance(n, ast.AnnAssign) and n.value is not None:
                        t = n.target
                        if isinstance(t, ast.Attribute) and isinstance(t.value, ast.Name) and t.value.id == sn and t.attr == attr:
                            out |= self.kinds(n.value, m)
                    elif isinstance(n, ast.With):
                        for it in n.items:
                            t = it.optional_vars
                            if isinstance(t, ast.Attribute) and isinstance(t.value, ast.Name) and t.value.id == sn and t.attr == attr:
                                out |= self.kinds(it.context_expr, m)
        # stores through an explicit class name:  ClassName.attr = v  (anywhere)
        for f in self.prog.functions.values():
            for n in own_nodes(f.node):
                if isinstance(n, ast.Assign):
                    for t in n.targets:
                        if isinstance(t, ast.Attribute) and t.attr == attr and isinstance(t.value, ast.Name) and t.value.id != (f.self_name or ""):
                            for bk in self.kinds(t.value, f):
                                if bk[0] == "class" and (bk[1] in related):
                                    out |= self.kinds(n.value, f)
        out.discard(("none",)) if len(out) > 1 else None
        if not out:
            out = {("umeth", attr)}
        self._attr_cache[key] = out
        return out

    @staticmethod
    def _flatten_target(target, value):
        if isinstance(target, (ast.Tuple, ast.List)):
            if isinstance(value, (ast.Tuple, ast.List)) and len(value.elts) == len(target.elts):
                for t, v in zip(target.elts, value.elts):
                    yield from Resolver._flatten_target(t, v)
            else:
                for t in target.elts:
                    yield t, None
        else:
            yield target, value

    # ------------------------------------------------------------------ call targets
    def call_targets(self, call, fn, mod=None):
        """Resolved targets of a call expression.

        Returns list of tuples:
          ('pkg', Func)            package function / method / constructor __init__ / __call__
          ('ext', dotted)          external callable
          ('bmeth', kind, name)    method on a builtin-kind value
          ('umeth', name)          method on an unknown receiver (caller should over-approximate)
          ('new', Class)           instantiation of a package class without __init__
          ('unknown',)
        """
        out = []
        for k in self.kinds(call.func, fn, mod):
            t = k[0]
            if t == "func":
                out.append(("pkg", k[1]))
            elif t == "class":
                init = self.prog.find_method(k[1], "__init__")
                out.append(("pkg", init) if init else ("new", k[1]))
            elif t == "inst":
                m = self.prog.find_method(k[1], "__call__")
                out.append(("pkg", m) if m else ("unknown",))
            elif t == "ext":
                out.append(("ext", k[1]))
            elif t == "extdecorated":
                out.append(("ext", k[1]))
            elif t == "bmeth":
                out.append(("bmeth", k[1], k[2]))
            elif t == "umeth":
                out.append(("umeth", k[1]))
            elif t == "lambda":
                out.append(("lambda", k[1]))
            else:
                out.append(("unknown",))
        # de-duplicate
        seen = []
        for o in out:
            if o not in seen:
                seen.append(o)
        return seen
