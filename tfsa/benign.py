"""Whole-package behaviour-preserving transforms used by the thorough self-test (must leave every verdict unchanged)."""
import ast
import glob
import os


def reformat(src):
    return ast.unparse(ast.parse(src)) + "\n"


class _Rename(ast.NodeTransformer):
    def visit_FunctionDef(self, node):
        params = {a.arg for a in node.args.posonlyargs + node.args.args + node.args.kwonlyargs}
        if node.args.vararg:
            params.add(node.args.vararg.arg)
        if node.args.kwarg:
            params.add(node.args.kwarg.arg)
        glob_, stores = set(), set()

        def walk(n):
            for c in ast.iter_child_nodes(n):
                if isinstance(c, (ast.FunctionDef, ast.ClassDef, ast.Lambda)):
                    continue
                if isinstance(c, (ast.Global, ast.Nonlocal)):
                    glob_.update(c.names)
                if isinstance(c, ast.Name) and isinstance(c.ctx, ast.Store):
                    stores.add(c.id)
                if isinstance(c, ast.ExceptHandler) and c.name:
                    stores.add(c.name)
                walk(c)
        walk(node)
        ren = {n: n + "_rn" for n in stores if n not in params and n not in glob_ and n != "_"}

        def rewrite(n):
            for c in ast.iter_child_nodes(n):
                if isinstance(c, (ast.FunctionDef, ast.ClassDef)):
                    continue
                if isinstance(c, ast.Name) and c.id in ren:
                    c.id = ren[c.id]
                if isinstance(c, ast.ExceptHandler) and c.name in ren:
                    c.name = ren[c.name]
                rewrite(c)
        rewrite(node)
        for c in node.body:
            self.visit(c)
        return node

    def visit_ClassDef(self, node):
        for c in node.body:
            self.visit(c)
        return node


def rename_locals(src):
    t = ast.parse(src)
    _Rename().visit(t)
    return ast.unparse(t) + "\n"


class _Log(ast.NodeTransformer):
    STMT = "logging.getLogger(__name__).debug('trace')"

    def _pad(self, body):
        out = []
        for st in body:
            out.append(st)
            if not isinstance(st, (ast.Return, ast.Raise, ast.Break, ast.Continue)):
                out.append(ast.parse(self.STMT).body[0])
        return out

    def visit_FunctionDef(self, node):
        self.generic_visit(node)
        doc = node.body[:1] if (node.body and isinstance(node.body[0], ast.Expr) and isinstance(node.body[0].value, ast.Constant)) else []
        node.body = doc + [ast.parse(self.STMT).body[0]] + self._pad(node.body[len(doc):])
        return node

    def visit_For(self, node):
        self.generic_visit(node)
        node.body = self._pad(node.body)
        return node

    def visit_While(self, node):
        self.generic_visit(node)
        node.body = self._pad(node.body)
        return node

    def visit_If(self, node):
        self.generic_visit(node)
        node.body = self._pad(node.body)
        if node.orelse and not (len(node.orelse) == 1 and isinstance(node.orelse[0], ast.If)):
            node.orelse = self._pad(node.orelse)
        return node


def add_logging(src):
    t = ast.parse(src)
    _Log().visit(t)
    ast.fix_missing_locations(t)
    code = ast.unparse(t)
    if "import logging" not in code:
        code = "import logging\n" + code
    return code + "\n"


TRANSFORMS = {"global-reformat": reformat, "global-rename-locals": rename_locals, "global-logging-everywhere": add_logging}


def apply(name, root):
    fn = TRANSFORMS[name]
    for f in glob.glob(os.path.join(root, "torrentfile", "*.py")):
        with open(f, encoding="utf-8") as fh:
            src = fh.read()
        new = fn(src)
        compile(new, f, "exec")
        with open(f, "w", encoding="utf-8") as fh:
            fh.write(new)
