"""Source normalisation: dissolve small helpers into their callers (the inverse of "extract method / extract function").

Used only as a second reading: when a rule module answers UNDECIDED on the tree as written, check.py reads the tree again
with the helpers below inlined and adopts that reading if it is decided.  The transformation is behaviour preserving under
the conditions it checks syntactically, and it is all-or-nothing per helper: a helper is dissolved only when *every*
reference to its name in the package is a call site of one of the supported forms, and then its definition is removed, so
that no statement exists twice.

Helper H (a module-level function, or a method reached as `self.H(...)` from a method of the same class family, caller and
helper in the same module):
  * its name is defined exactly once in the package, is not a dunder, and is not a name the rule modules anchor on
    (`protected`: every identifier that occurs in /verif/rules/*.py);
  * plain `def` (optionally @staticmethod), no *args / **kwargs, no yield / await / global / nonlocal / lambda / nested def,
    not recursive, defaults are constants;
  * every reference is a call with plain positional / keyword arguments, inside a function of the same module, in one of
    the forms
        return H(...)                 tail call      -> parameter bindings + body of H (its returns stay returns)
        H(...)                        statement      -> parameter bindings + body of H (H has no `return <value>`; a bare
                                                        return only as its last statement)
        T = H(...)                    assignment     -> parameter bindings + body of H, the final `return E` as `T = E`
                                                        (H has exactly one return, its last statement)
        ... H(...) ...                in an expression -> E with the parameters substituted (H is abbreviations + `return E`,
                                                        arguments are names, constants or attribute chains)
Parameters are replaced by the argument when that is a name or a constant and H never assigns the parameter; otherwise a
binding `param = argument` is emitted.  Locals of H that collide with names of the caller are prefixed with `H__`.
Positions (lineno) of the moved statements are kept: caller and helper are in the same file.
"""
import ast
import copy
import os
import re

MAX_STMTS = 60


def protected_names():
    """Names the rule modules anchor on: every identifier inside a string constant of /verif/rules/*.py that is itself a
    (dotted, optionally module-qualified) name - "torrentfile.utils:_filelist_total", "assemble", "Hasher.__next__"."""
    here = os.path.join(os.path.dirname(os.path.dirname(os.path.abspath(__file__))), "rules")
    names = set()
    for fn in sorted(os.listdir(here)):
        if not fn.endswith(".py"):
            continue
        with open(os.path.join(here, fn), encoding="utf-8") as fh:
            try:
                tree = ast.parse(fh.read())
            except SyntaxError:
                continue
        for n in ast.walk(tree):
            if isinstance(n, ast.Constant) and isinstance(n.value, str) and re.fullmatch(r"[A-Za-z_][A-Za-z_0-9.]*(:[A-Za-z_0-9.<>]+)?", n.value):
                names.update(re.findall(r"[A-Za-z_][A-Za-z0-9_]*", n.value))
    return names


class _Rename(ast.NodeTransformer):
    def __init__(self, names, exprs):
        self.names, self.exprs = names, exprs

    def visit_Name(self, n):
        if n.id in self.exprs and isinstance(n.ctx, ast.Load):
            return ast.copy_location(copy.deepcopy(self.exprs[n.id]), n)
        if n.id in self.names:
            return ast.copy_location(ast.Name(id=self.names[n.id], ctx=n.ctx), n)
        return n

    def visit_arg(self, n):
        return n


def _stmts(node):
    return [x for x in ast.walk(node) if isinstance(x, ast.stmt)]


def _stored_names(fnode):
    out = set()
    for x in ast.walk(fnode):
        if isinstance(x, ast.Name) and isinstance(x.ctx, (ast.Store, ast.Del)):
            out.add(x.id)
        elif isinstance(x, ast.ExceptHandler) and x.name:
            out.add(x.name)
        elif isinstance(x, (ast.Import, ast.ImportFrom)):
            for al in x.names:
                out.add((al.asname or al.name).split(".")[0])
    return out


def _all_names(fnode):
    a = fnode.args
    out = {x.arg for x in a.posonlyargs + a.args + a.kwonlyargs}
    if a.vararg:
        out.add(a.vararg.arg)
    if a.kwarg:
        out.add(a.kwarg.arg)
    return out | _stored_names(fnode) | {x.id for x in ast.walk(fnode) if isinstance(x, ast.Name)}


def _simple_target(t):
    if isinstance(t, ast.Name):
        return True
    if isinstance(t, ast.Attribute):
        return _simple_target(t.value)
    if isinstance(t, ast.Subscript):
        return _simple_target(t.value) and isinstance(t.slice, ast.Constant)
    return False


class _YieldToAppend(ast.NodeTransformer):
    def __init__(self, target):
        self.target = target

    def visit_Expr(self, n):
        if isinstance(n.value, ast.Yield):
            recv = copy.deepcopy(self.target)
            for x in ast.walk(recv):
                if hasattr(x, "ctx"):
                    x.ctx = ast.Load()
            call = ast.Call(func=ast.Attribute(value=recv, attr="append", ctx=ast.Load()), args=[n.value.value], keywords=[])
            return ast.copy_location(ast.Expr(value=ast.copy_location(call, n)), n)
        return self.generic_visit(n)


def _simple_arg(a, deep=False):
    if isinstance(a, (ast.Name, ast.Constant)):
        return True
    if deep and isinstance(a, ast.Attribute):
        return _simple_arg(a.value, True)
    return False


def _has_return(stmts):
    return any(isinstance(x, ast.Return) for st in stmts for x in ast.walk(st))


def _terminates(stmts):
    """Every path through the statement list ends in a return (structured code: last statement a return, or an if whose
    two branches both terminate)."""
    if not stmts:
        return False
    last = stmts[-1]
    if isinstance(last, ast.Return):
        return True
    if isinstance(last, ast.If):
        return _terminates(last.body) and _terminates(last.orelse)
    return False


def _eliminate_returns(stmts, on_return):
    """Rewrite a structured statement list so that it contains no return: `return E` becomes on_return(E) (a list of
    statements, possibly empty) and what followed an `if` with a returning branch moves into the branch that continues.
    None when a return sits where this cannot be done without copying statements (inside a loop, with, try; an if of which
    a branch returns only on some of its paths)."""
    out = []
    for i, st in enumerate(stmts):
        rest = stmts[i + 1:]
        if isinstance(st, ast.Return):
            out.extend(on_return(st))
            return out          # anything after a return is dead
        if not _has_return([st]):
            out.append(st)
            continue
        if not isinstance(st, ast.If):
            return None
        a_term, b_term = _terminates(st.body), _terminates(st.orelse)
        if a_term and b_term:
            a, b = _eliminate_returns(st.body, on_return), _eliminate_returns(st.orelse, on_return)
        elif a_term and not _has_return(st.orelse):
            a, b = _eliminate_returns(st.body, on_return), _eliminate_returns(list(st.orelse) + rest, on_return)
        elif b_term and not _has_return(st.body):
            a, b = _eliminate_returns(list(st.body) + rest, on_return), _eliminate_returns(st.orelse, on_return)
        elif len(_stmts(ast.Module(body=rest, type_ignores=[]))) <= 6:
            # a branch returns on some of its paths only: what follows is copied into both branches (a few statements at most)
            a = _eliminate_returns(list(st.body) + copy.deepcopy(rest), on_return)
            b = _eliminate_returns(list(st.orelse) + rest, on_return)
        else:
            return None
        if a is None or b is None:
            return None
        new = ast.copy_location(ast.If(test=st.test, body=a or [ast.copy_location(ast.Pass(), st)], orelse=b), st)
        out.append(new)
        return out
    return out


class _Helper:
    def __init__(self, mod, cls, node):
        self.mod, self.cls, self.node = mod, cls, node
        self.name = node.name
        self.static = any(isinstance(d, ast.Name) and d.id == "staticmethod" for d in node.decorator_list)
        a = node.args
        self.params = [x.arg for x in a.posonlyargs + a.args]
        self.kwonly = [x.arg for x in a.kwonlyargs]
        self.self_name = self.params[0] if cls is not None and not self.static and self.params else None
        pos = a.posonlyargs + a.args
        self.defaults = {p.arg: d for p, d in zip(pos[len(pos) - len(a.defaults):], a.defaults)}
        self.defaults.update({p.arg: d for p, d in zip(a.kwonlyargs, a.kw_defaults) if d is not None})
        body = list(node.body)
        if body and isinstance(body[0], ast.Expr) and isinstance(body[0].value, ast.Constant) and isinstance(body[0].value.value, str):
            body = body[1:]
        self.body = body
        self.returns = [x for x in ast.walk(node) if isinstance(x, ast.Return)]
        self.stored = _stored_names(node)

    def admissible(self):
        n = self.node
        if isinstance(n, ast.AsyncFunctionDef) or n.args.vararg or not self.body:
            return False
        if self.name.startswith("__") and self.name.endswith("__"):
            return False
        if any(not (isinstance(d, ast.Name) and d.id == "staticmethod") for d in n.decorator_list):
            return False
        if self.cls is not None and not self.static and not self.params:
            return False
        if any(not isinstance(d, ast.Constant) for d in self.defaults.values()):
            return False
        for x in ast.walk(n):
            if x is n:
                continue
            if isinstance(x, (ast.YieldFrom, ast.Await, ast.Global, ast.Nonlocal, ast.Lambda, ast.FunctionDef, ast.AsyncFunctionDef, ast.ClassDef)):
                return False
            if isinstance(x, ast.Name) and x.id == self.name:
                return False
            if isinstance(x, ast.Attribute) and x.attr == self.name:
                return False
        if self.self_name and self.self_name in self.stored:
            return False
        self.is_gen = any(isinstance(x, ast.Yield) for x in ast.walk(n))
        if self.is_gen and not self.listgen_form():
            return False
        return len(_stmts(n)) <= MAX_STMTS

    # which call forms the body allows
    def is_gen_safe(self):
        return not any(isinstance(x, (ast.Yield, ast.YieldFrom)) for x in ast.walk(self.node))

    def expr_form(self):
        if not isinstance(self.body[-1], ast.Return) or self.body[-1].value is None or len(self.returns) != 1:
            return False
        pre = self.body[:-1]
        if not all(isinstance(st, ast.Assign) and len(st.targets) == 1 and isinstance(st.targets[0], ast.Name) for st in pre):
            return False
        names = [st.targets[0].id for st in pre]
        if len(set(names)) != len(names) or set(names) & set(self.params + self.kwonly):
            return False
        return not any(isinstance(x, (ast.ListComp, ast.SetComp, ast.DictComp, ast.GeneratorExp, ast.NamedExpr)) for st in self.body for x in ast.walk(st))

    def _structured(self):
        """Returns can be eliminated: none inside a loop / with / try, guard-clause shape otherwise."""
        probe = _eliminate_returns(copy.deepcopy(self.body), lambda r: [])
        return probe is not None

    def stmt_form(self):
        vals = [r for r in self.returns if r.value is not None and not (isinstance(r.value, ast.Constant) and r.value.value is None)]
        return not vals and self._structured()

    def listgen_form(self):
        """A generator whose yields are plain statements `yield E` and that ends by falling off its body: list(H(...)) is
        the list of the E's in the order of execution."""
        ys = [x for x in ast.walk(self.node) if isinstance(x, (ast.Yield, ast.YieldFrom))]
        if not ys or any(isinstance(y, ast.YieldFrom) or y.value is None for y in ys):
            return False
        stmts = {id(st.value) for st in ast.walk(self.node) if isinstance(st, ast.Expr)}
        if any(id(y) not in stmts for y in ys):
            return False
        return all(r.value is None and r is self.body[-1] for r in self.returns)

    def forgen_form(self):
        """A generator that is one loop (after plain assignments) with a single `yield E` as the last thing an iteration does:
        `for T in H(..): BODY` is then that loop with `T = E; BODY` in place of the yield - break and continue of BODY act on the
        generator's loop exactly as they acted on the consumer's."""
        if not self.listgen_form():
            return False
        body = [st for st in self.body if not isinstance(st, ast.Return)]
        if not body or not isinstance(body[-1], (ast.For, ast.While)) or body[-1].orelse:
            return False
        if not all(isinstance(st, ast.Assign) for st in body[:-1]):
            return False
        loop = body[-1]
        ys = [x for x in ast.walk(self.node) if isinstance(x, ast.Yield)]
        if len(ys) != 1:
            return False

        def tail(stmts):
            """the yield is the last statement executed in this list whenever it is executed"""
            if not stmts:
                return False
            last = stmts[-1]
            if isinstance(last, ast.Expr) and last.value is ys[0]:
                return True
            if isinstance(last, ast.If):
                inb = any(x is ys[0] for st in last.body for x in ast.walk(st))
                ine = any(x is ys[0] for st in last.orelse for x in ast.walk(st))
                return (inb and tail(last.body)) or (ine and tail(last.orelse))
            return False
        nested = [x for x in ast.walk(loop) if isinstance(x, (ast.For, ast.While, ast.Try, ast.With)) and x is not loop]
        return tail(loop.body) and not nested

    def assign_form(self):
        return bool(self.returns) and all(r.value is not None for r in self.returns) and _terminates(self.body) and self._structured()

    def single_tail_return(self):
        return len(self.returns) == 1 and self.returns[0] is self.body[-1]


def _bind(h, call, caller_self):
    """param -> argument expression (None if the call cannot be bound)."""
    if any(isinstance(a, ast.Starred) for a in call.args) or any(k.arg is None for k in call.keywords):
        return None
    params = list(h.params)
    m = {}
    if h.self_name:
        params = params[1:]
        m[h.self_name] = ast.Name(id=caller_self, ctx=ast.Load())
    if len(call.args) > len(params):
        return None
    for p, a in zip(params, call.args):
        m[p] = a
    extra = []
    for k in call.keywords:
        if k.arg in m:
            return None
        if k.arg not in params + h.kwonly:
            if h.node.args.kwarg is None:
                return None
            extra.append(k)          # collected by **kwarg: a dictionary display with these very keys
            continue
        m[k.arg] = k.value
    if h.node.args.kwarg is not None:
        m[h.node.args.kwarg.arg] = ast.Dict(keys=[ast.Constant(value=k.arg) for k in extra], values=[k.value for k in extra])
    for p in params + h.kwonly:
        if p not in m:
            if p not in h.defaults:
                return None
            m[p] = h.defaults[p]
    return m


def _instantiate(h, call, caller, caller_self, form, target=None, shared=frozenset()):
    """Statements (or, for form 'expr', an expression) replacing the call.
    shared: names the body of h shares with the caller (fields of a dissolved object): never renamed."""
    m = _bind(h, call, caller_self)
    if m is None:
        return None
    taken = _all_names(caller) - set(shared)
    exprs, names, binds = {}, {}, []
    whole = {a.id for a in m.values() if isinstance(a, ast.Name)}

    def chain_base(a):
        while isinstance(a, ast.Attribute):
            a = a.value
        return a.id if isinstance(a, ast.Name) else None
    for p, a in m.items():
        # an attribute chain is as good as a name when the helper cannot reach the object it starts from
        far = isinstance(a, ast.Attribute) and _simple_arg(a, True) and chain_base(a) not in whole
        direct = p not in h.stored and (_simple_arg(a) or far or (form == "expr" and _simple_arg(a, True)))
        if direct:
            exprs[p] = a
        elif form == "expr":
            # an argument with possible effects may only be used once
            uses = sum(1 for x in ast.walk(h.node) if isinstance(x, ast.Name) and x.id == p and isinstance(x.ctx, ast.Load))
            pure = not any(isinstance(x, (ast.Call, ast.Await, ast.Yield, ast.YieldFrom, ast.NamedExpr)) for x in ast.walk(a))
            if (uses > 1 and not pure) or p in h.stored:
                return None
            exprs[p] = a
        else:
            new = p if p not in taken else "%s__%s" % (h.name.strip("_"), p)
            if new in taken and new != p:
                return None
            names[p] = new
            taken.add(new)
            binds.append(ast.copy_location(ast.Assign(targets=[ast.Name(id=new, ctx=ast.Store())], value=copy.deepcopy(a), lineno=call.lineno), call))
    # `T = H(...)` with `return L` (L a local of H), or the same position by position for tuples: L simply *is* T
    keep_positions = None
    if form == "assign":
        same = len({ast.dump(r.value) for r in h.returns}) == 1
        R = h.returns[0].value if same else None
        pairs = []
        if isinstance(target, ast.Name) and isinstance(R, ast.Name):
            pairs = [(target, R, None)]
        elif isinstance(target, (ast.Tuple, ast.List)) and _tuple_elts(R) is not None and len(target.elts) == len(_tuple_elts(R)) \
                and not any(isinstance(x, ast.Starred) for x in list(target.elts) + list(_tuple_elts(R))):
            pairs = [(t_, r_, i) for i, (t_, r_) in enumerate(zip(target.elts, _tuple_elts(R)))]
        arg_names = {x.id for a in m.values() for x in ast.walk(a) if isinstance(x, ast.Name)}
        h_names = {x.id for x in ast.walk(h.node) if isinstance(x, ast.Name)} | set(h.params) | set(h.kwonly)
        mapped = []
        for t_, r_, i in pairs:
            if isinstance(t_, ast.Name) and isinstance(r_, ast.Name) and t_.id != "_" and r_.id in h.stored and r_.id not in m and r_.id not in names \
                    and t_.id not in arg_names and (t_.id == r_.id or t_.id not in h_names) and t_.id not in names.values() \
                    and sum(1 for _, r2, _ in pairs if isinstance(r2, ast.Name) and r2.id == r_.id) == 1:
                names[r_.id] = t_.id
                taken.add(t_.id)
                mapped.append(i)
        if mapped:
            keep_positions = [i for _, _, i in pairs if i not in mapped]
    # `for T in H(..)` where H yields one of its own locals: that local simply *is* T
    forgen_direct = False
    if form == "forgen" and isinstance(target.target, ast.Name):
        ys = [x for x in ast.walk(h.node) if isinstance(x, ast.Yield)]
        yv = ys[0].value if len(ys) == 1 else None
        tname = target.target.id
        h_names = {x.id for x in ast.walk(h.node) if isinstance(x, ast.Name)} | set(h.params) | set(h.kwonly)
        arg_names = {x.id for a in m.values() for x in ast.walk(a) if isinstance(x, ast.Name)}
        if isinstance(yv, ast.Name) and yv.id in h.stored and yv.id not in m and yv.id not in names and tname not in arg_names and (tname == yv.id or tname not in h_names):
            names[yv.id] = tname
            taken.add(tname)
            forgen_direct = True
    for loc in sorted(h.stored - set(m) - set(names) - set(shared)):
        if loc in taken:
            new = "%s__%s" % (h.name.strip("_"), loc)
            if new in taken:
                return None
            names[loc] = new
            taken.add(new)
    ren = _Rename(names, exprs)
    if form == "expr":
        env = dict(exprs)
        for st in h.body[:-1]:
            env[st.targets[0].id] = _Rename(names, dict(env)).visit(copy.deepcopy(st.value))
        return ast.copy_location(_Rename(names, env).visit(copy.deepcopy(h.body[-1].value)), call)
    body = [ren.visit(copy.deepcopy(st)) for st in h.body]
    if form == "forgen":
        if body and isinstance(body[-1], ast.Return):
            body.pop()
        consumer = target            # the For statement

        class _Y(ast.NodeTransformer):
            def visit_Expr(self, n):
                if isinstance(n.value, ast.Yield):
                    first = ast.copy_location(ast.Assign(targets=[copy.deepcopy(consumer.target)], value=n.value.value, lineno=n.lineno), n)
                    return ([] if forgen_direct else [first]) + [copy.deepcopy(x) for x in consumer.body]
                return self.generic_visit(n)
        new_body = []
        for st in body:
            r = _Y().visit(st)
            new_body.extend(r if isinstance(r, list) else [r])
        out = binds + new_body
        for st in out:
            ast.fix_missing_locations(st)
        return out
    if form == "listgen":
        if body and isinstance(body[-1], ast.Return):
            body.pop()
        y2a = _YieldToAppend(target)
        body = [y2a.visit(st) for st in body]
        first = ast.copy_location(ast.Assign(targets=[copy.deepcopy(target)], value=ast.List(elts=[], ctx=ast.Load()), lineno=call.lineno), call)
        out = binds + [first] + body
        for st in out:
            ast.fix_missing_locations(st)
        return out
    if form == "assign":
        def on_return(last):
            if keep_positions is None:
                return [ast.copy_location(ast.Assign(targets=[copy.deepcopy(target)], value=last.value, lineno=last.lineno), last)]
            if keep_positions and keep_positions != [None]:
                tg = ast.Tuple(elts=[copy.deepcopy(target.elts[i]) for i in keep_positions], ctx=ast.Store())
                vl = ast.Tuple(elts=[_tuple_elts(last.value)[i] for i in keep_positions], ctx=ast.Load())
                if len(keep_positions) == 1:
                    tg, vl = tg.elts[0], vl.elts[0]
                return [ast.copy_location(ast.Assign(targets=[tg], value=vl, lineno=last.lineno), last)]
            return []
        body = _eliminate_returns(body, on_return)
        if body is None:
            return None
    if form == "stmt":
        body = _eliminate_returns(body, lambda r: [])
        if body is None:
            return None
    out = binds + body
    if not out:
        out = [ast.copy_location(ast.Pass(), call)]
    for st in out:
        ast.fix_missing_locations(st)
    return out


_HOISTED = []       # (function node, temporary) pairs introduced by _hoist during one normalisation
_NAMEDTUPLES = {}   # class name -> number of fields, for the NamedTuple classes of the package being normalised


def _tuple_elts(v):
    """The positions of a tuple display, or of a NamedTuple of the package constructed by position (unpacking it is unpacking
    the arguments); None for anything else."""
    if isinstance(v, ast.Tuple):
        return v.elts
    if isinstance(v, ast.Call) and isinstance(v.func, ast.Name) and _NAMEDTUPLES.get(v.func.id) == len(v.args) and not v.keywords:
        return v.args
    return None


def _pure(e):
    return not any(isinstance(x, (ast.Call, ast.Await, ast.Yield, ast.YieldFrom, ast.NamedExpr, ast.Lambda, ast.ListComp, ast.SetComp, ast.DictComp, ast.GeneratorExp))
                   for x in ast.walk(e))


def _hoist(call, parent, f, hname):
    """Move `call` out of the expression it sits in: `S(... call ...)` becomes `tmp = call; S(... tmp ...)`.  Only when the
    call is evaluated exactly once whenever S is executed, and everything S evaluates before it is free of effects."""
    node, up = call, parent.get(call)
    while up is not None and not isinstance(up, ast.stmt):
        ok = False
        if isinstance(up, ast.BinOp):
            ok = node is up.left or (node is up.right and _pure(up.left))
        elif isinstance(up, ast.UnaryOp):
            ok = True
        elif isinstance(up, ast.Call):
            seq = [up.func] + list(up.args) + [k.value for k in up.keywords]
            ok = any(node is x for x in seq) and all(_pure(x) for x in seq[:[i for i, x in enumerate(seq) if x is node][0]]) if any(node is x for x in seq) else False
        elif isinstance(up, (ast.Attribute, ast.Starred, ast.keyword, ast.FormattedValue)):
            ok = True
        elif isinstance(up, ast.Subscript):
            ok = node is up.value or (node is up.slice and _pure(up.value))
        elif isinstance(up, (ast.Tuple, ast.List, ast.Set)):
            i = [j for j, x in enumerate(up.elts) if x is node]
            ok = bool(i) and all(_pure(x) for x in up.elts[:i[0]]) and isinstance(getattr(up, "ctx", ast.Load()), ast.Load)
        elif isinstance(up, ast.JoinedStr):
            i = [j for j, x in enumerate(up.values) if x is node]
            ok = bool(i) and all(_pure(x) for x in up.values[:i[0]])
        elif isinstance(up, ast.Compare):
            ok = len(up.ops) == 1 and (node is up.left or (node is up.comparators[0] and _pure(up.left)))
        elif isinstance(up, ast.BoolOp):
            ok = node is up.values[0]
        elif isinstance(up, ast.IfExp):
            ok = node is up.test
        if not ok:
            return False
        node, up = up, parent.get(up)
    S = up
    if not isinstance(S, (ast.Assign, ast.AugAssign, ast.AnnAssign, ast.Expr, ast.Return)) or getattr(S, "value", None) is not node:
        return False
    if isinstance(S, ast.AugAssign) and not isinstance(S.target, ast.Name):
        return False            # the target's sub-expressions are evaluated first
    if isinstance(S, ast.Assign) and not all(_pure(t) for t in S.targets):
        pass                    # targets are evaluated after the value
    holder = parent.get(S)
    lst = next((getattr(holder, fn_) for fn_ in ("body", "orelse", "finalbody") if isinstance(getattr(holder, fn_, None), list) and S in getattr(holder, fn_)), None)
    if lst is None:
        return False
    taken = _all_names(f)
    base = "%s_value" % hname.strip("_")
    tmp, k = base, 1
    while tmp in taken:
        k += 1
        tmp = "%s%d" % (base, k)
    holder_of_call = parent.get(call)
    repl = ast.copy_location(ast.Name(id=tmp, ctx=ast.Load()), call)
    for fname, val in ast.iter_fields(holder_of_call):
        if val is call:
            setattr(holder_of_call, fname, repl)
        elif isinstance(val, list):
            for i, v in enumerate(val):
                if v is call:
                    val[i] = repl
    new = ast.copy_location(ast.Assign(targets=[ast.Name(id=tmp, ctx=ast.Store())], value=call, lineno=S.lineno), S)
    ast.fix_missing_locations(new)
    lst.insert(lst.index(S), new)
    _HOISTED.append((f, tmp))
    return True


def _class_family(trees):
    """class name -> set of class names that are the class itself or one of its bases by simple name (same-package, by name)."""
    bases = {}
    for t in trees.values():
        for n in ast.walk(t):
            if isinstance(n, ast.ClassDef):
                bases.setdefault(n.name, set()).update(b.id if isinstance(b, ast.Name) else b.attr for b in n.bases if isinstance(b, (ast.Name, ast.Attribute)))
    fam = {}
    for c in bases:
        seen, work = set(), [c]
        while work:
            x = work.pop()
            if x in seen:
                continue
            seen.add(x)
            work.extend(bases.get(x, ()))
        fam[c] = seen
    return fam


def normalise(trees, protected):
    """trees: module name -> ast.Module (modified in place).  Returns the list of dissolved helpers ('module:qualname')."""
    done = []
    del _HOISTED[:]
    _NAMEDTUPLES.clear()
    seen_names = {}
    for t in trees.values():
        for n in ast.walk(t):
            if isinstance(n, ast.ClassDef):
                seen_names[n.name] = seen_names.get(n.name, 0) + 1
                if len(n.bases) == 1 and ((isinstance(n.bases[0], ast.Name) and n.bases[0].id == "NamedTuple") or (isinstance(n.bases[0], ast.Attribute) and n.bases[0].attr == "NamedTuple")):
                    _NAMEDTUPLES[n.name] = len([st for st in n.body if isinstance(st, ast.AnnAssign)])
    for k_ in [k_ for k_, c_ in seen_names.items() if c_ > 1]:
        _NAMEDTUPLES.pop(k_, None)
    for mn in sorted(trees):
        k = _lower_first_match(trees[mn])
        if k:
            done.append("%s:<%d first-match generator(s) written as loops>" % (mn, k))
    for mn in sorted(trees):
        k = _unroll_constant_loops(trees[mn])
        if k:
            done.append("%s:<%d loop(s) over a constant table unrolled>" % (mn, k))
    for _ in range(160):
        one = _one_pass(trees, protected)
        if one is None and _lower_updates(trees):
            one = "~dictionary updates by a display written as stores"
        if one is None:
            one = _dissolve_object(trees, protected)
        if one is None:
            break
        if not one.startswith("~"):
            done.append(one)
    if done:
        for mn in sorted(trees):
            _fold_dead(trees[mn])
    # a temporary that ended up as a plain copy of a caller variable (`tmp = blocks`) reads as that variable
    temps = {tmp_ for _, tmp_ in _HOISTED}
    if temps:
        for mn in sorted(trees):
            for f_ in [n for n in ast.walk(trees[mn]) if isinstance(n, ast.FunctionDef)]:
                mine = sorted({n.id for n in ast.walk(f_) if isinstance(n, ast.Name) and n.id in temps and isinstance(n.ctx, ast.Store)})
                if mine:
                    try:
                        _propagate_copies(f_, mine)
                    except Exception:
                        pass
    del _HOISTED[:]
    return done


def _const_truth(t):
    """True / False when the test is decided by constants alone (a defaulted parameter that was substituted), else None."""
    if isinstance(t, ast.Constant):
        return bool(t.value)
    if isinstance(t, ast.UnaryOp) and isinstance(t.op, ast.Not):
        v = _const_truth(t.operand)
        return None if v is None else (not v)
    if isinstance(t, ast.Compare) and len(t.ops) == 1 and isinstance(t.left, ast.Constant) and isinstance(t.comparators[0], ast.Constant):
        a, b, op = t.left.value, t.comparators[0].value, t.ops[0]
        if isinstance(op, ast.Is):
            return a is b if (a is None or b is None or isinstance(a, bool) or isinstance(b, bool)) else None
        if isinstance(op, ast.IsNot):
            return a is not b if (a is None or b is None or isinstance(a, bool) or isinstance(b, bool)) else None
        try:
            if isinstance(op, ast.Eq):
                return a == b
            if isinstance(op, ast.NotEq):
                return a != b
        except Exception:
            return None
    if isinstance(t, ast.BoolOp):
        vals = [_const_truth(v) for v in t.values]
        if isinstance(t.op, ast.And):
            if any(v is False for v in vals):
                return False
            return True if all(v is True for v in vals) else None
        if any(v is True for v in vals):
            return True
        return False if all(v is False for v in vals) else None
    return None


def _fold_dead(tree):
    """`if <decided by constants>:` keeps only the arm that runs (inlining a helper with a defaulted parameter leaves such tests)."""
    changed = True
    while changed:
        changed = False
        for holder in ast.walk(tree):
            for fname in ("body", "orelse", "finalbody"):
                lst = getattr(holder, fname, None)
                if not isinstance(lst, list):
                    continue
                for i, st in enumerate(lst):
                    if isinstance(st, ast.If):
                        v = _const_truth(st.test)
                        if v is None:
                            # operands decided by constants that cannot decide the test drop out (`False or X`, `True and X`)
                            t = st.test
                            if isinstance(t, ast.BoolOp):
                                neutral = isinstance(t.op, ast.And)
                                keep = [o for o in t.values if _const_truth(o) is not neutral]
                                if keep and len(keep) < len(t.values):
                                    st.test = keep[0] if len(keep) == 1 else ast.copy_location(ast.BoolOp(op=t.op, values=keep), t)
                            continue
                        live = st.body if v else st.orelse
                        lst[i:i + 1] = live if live or len(lst) > 1 else [ast.copy_location(ast.Pass(), st)]
                        # what follows an arm that always leaves (return / raise / break / continue) no longer runs
                        for j, s2 in enumerate(lst):
                            if isinstance(s2, (ast.Return, ast.Raise, ast.Break, ast.Continue)) and j + 1 < len(lst) and j >= i and j < i + max(len(live), 1):
                                del lst[j + 1:]
                                break
                        changed = True
                        break
                if changed:
                    break
            if changed:
                break


def _one_pass(trees, protected):
    fam = _class_family(trees)
    # definitions by name
    defs = {}
    for mn, t in trees.items():
        for n in ast.walk(t):
            if isinstance(n, ast.ClassDef):
                for st in n.body:
                    if isinstance(st, (ast.FunctionDef, ast.AsyncFunctionDef)):
                        defs.setdefault(st.name, []).append((mn, n, st))
        for st in t.body:
            if isinstance(st, (ast.FunctionDef, ast.AsyncFunctionDef)):
                defs.setdefault(st.name, []).append((mn, None, st))
    # every other way a name can be mentioned
    mentions = {}
    for mn, t in trees.items():
        for n in ast.walk(t):
            if isinstance(n, ast.Name):
                mentions.setdefault(n.id, []).append((mn, n))
            elif isinstance(n, ast.Attribute):
                mentions.setdefault(n.attr, []).append((mn, n))
            elif isinstance(n, ast.Constant) and isinstance(n.value, str) and n.value.isidentifier():
                mentions.setdefault(n.value, []).append((mn, n))
            elif isinstance(n, (ast.Import, ast.ImportFrom)):
                for al in n.names:
                    for nm in {al.name.split(".")[-1], al.asname}:
                        if nm:
                            mentions.setdefault(nm, []).append((mn, n))
            elif isinstance(n, ast.keyword) and n.arg:
                mentions.setdefault(n.arg, []).append((mn, n))
    helpers = []
    for name, ds in defs.items():
        if len(ds) != 1 or name in protected:
            continue
        mn, cls, node = ds[0]
        h = _Helper(mn, cls, node)
        if h.admissible():
            helpers.append(h)
    if not helpers:
        return None
    hnames = {h.name for h in helpers}
    # leaf first: a helper whose body calls another candidate waits for the next pass
    def calls_candidate(h):
        return any((isinstance(x, ast.Name) and x.id in hnames) or (isinstance(x, ast.Attribute) and x.attr in hnames) for x in ast.walk(h.node) if x is not h.node)
    # (a helper that calls a candidate which cannot be dissolved is tried after the leaves)
    for h in sorted(helpers, key=lambda x: (calls_candidate(x), x.mod, x.node.lineno)):
        t = trees[h.mod]
        parent = {}
        for n in ast.walk(t):
            for c in ast.iter_child_nodes(n):
                parent[c] = n
        sites = []
        ok = True
        for mn, ref in mentions.get(h.name, []):
            if mn != h.mod or not isinstance(ref, (ast.Name, ast.Attribute)) or ref not in parent:
                ok = False
                break
            call = parent.get(ref)
            if not (isinstance(call, ast.Call) and call.func is ref):
                ok = False
                break
            # enclosing function / class
            f = call
            inner_scope = False
            while f is not None and not isinstance(f, (ast.FunctionDef, ast.AsyncFunctionDef)):
                if isinstance(f, (ast.Lambda, ast.ClassDef)):
                    inner_scope = True
                f = parent.get(f)
            if f is None or f is h.node or inner_scope or isinstance(f, ast.AsyncFunctionDef):
                ok = False
                break
            fcls = parent.get(f)
            caller_self = None
            if h.cls is not None and not h.static:
                # self.H(...) in a method of the class that defines H or of one of its subclasses
                if not (isinstance(ref, ast.Attribute) and isinstance(ref.value, ast.Name) and isinstance(fcls, ast.ClassDef) and f.args.args
                        and ref.value.id == f.args.args[0].arg and not any(isinstance(d, ast.Name) and d.id in ("staticmethod", "classmethod") for d in f.decorator_list)
                        and h.cls.name in fam.get(fcls.name, ())):
                    ok = False
                    break
                caller_self = ref.value.id
                if caller_self in _stored_names(f):
                    ok = False
                    break
            elif h.cls is not None:
                if not (isinstance(ref, ast.Attribute) and isinstance(ref.value, ast.Name) and isinstance(fcls, ast.ClassDef) and f.args.args and ref.value.id == f.args.args[0].arg
                        and h.cls.name in fam.get(fcls.name, ())):
                    ok = False
                    break
            else:
                if not isinstance(ref, ast.Name) or h.name in _stored_names(f) or h.name in {a.arg for a in f.args.posonlyargs + f.args.args + f.args.kwonlyargs}:
                    ok = False
                    break
            st = parent.get(call)
            form = None
            if h.is_gen:
                # T = list(H(...))
                outer = st
                st = parent.get(outer)
                if isinstance(outer, ast.Call) and isinstance(outer.func, ast.Name) and outer.func.id == "list" and outer.args == [call] and not outer.keywords \
                        and isinstance(st, ast.Assign) and st.value is outer and len(st.targets) == 1 and _simple_target(st.targets[0]):
                    form = "listgen"
                elif isinstance(outer, ast.For) and outer.iter is call and not outer.orelse and h.forgen_form():
                    # for T in H(...): BODY   - the loop of the generator, with BODY where it yields
                    form, st = "forgen", outer
            elif isinstance(st, ast.Return) and st.value is call:
                form = "tail"
            elif isinstance(st, ast.Expr) and st.value is call and h.stmt_form():
                form = "stmt"
            elif isinstance(st, ast.Assign) and st.value is call and len(st.targets) == 1 and h.assign_form():
                form = "assign"
            elif h.expr_form():
                form = "expr"
            if form is None and not h.is_gen and h.assign_form():
                # a value-returning helper with statements, called inside a larger expression: bind its value to a temporary
                # in front of the statement (when nothing with an effect is evaluated before the call), and start over
                if _hoist(call, parent, f, h.name):
                    return "~hoisted a call of %s" % h.name
            if form is None:
                ok = False
                break
            if form in ("tail", "stmt", "assign", "listgen", "forgen"):
                holder = parent.get(st)
                field = None
                for fname in ("body", "orelse", "finalbody"):
                    if isinstance(getattr(holder, fname, None), list) and st in getattr(holder, fname):
                        field = fname
                if field is None:
                    ok = False
                    break
                sites.append((form, call, st, holder, field, f, caller_self))
            else:
                sites.append((form, call, parent.get(call), None, None, f, caller_self))
        if not ok or not sites:
            continue
        # instantiate everything first; apply only if every site works
        plans = []
        for form, call, st, holder, field, f, caller_self in sites:
            new = _instantiate(h, call, f, caller_self, form, target=st.targets[0] if form in ("assign", "listgen") else (st if form == "forgen" else None))
            if new is None:
                plans = None
                break
            plans.append(new)
        if plans is None:
            continue
        for (form, call, st, holder, field, f, caller_self), new in zip(sites, plans):
            if form == "expr":
                for fname, val in ast.iter_fields(st):
                    if val is call:
                        setattr(st, fname, new)
                    elif isinstance(val, list):
                        for i, v in enumerate(val):
                            if v is call:
                                val[i] = new
            else:
                lst = getattr(holder, field)
                i = lst.index(st)
                lst[i:i + 1] = new
        # remove the definition
        owner = h.cls.body if h.cls is not None else t.body
        owner.remove(h.node)
        if h.cls is not None and not h.cls.body:
            h.cls.body.append(ast.copy_location(ast.Pass(), h.node))
        # the tables above describe the tree before this change: one helper per pass
        return "%s:%s%s" % (h.mod, (h.cls.name + ".") if h.cls is not None else "", h.name)
    return None


# ---------------------------------------------------------------------------------------------------------------------------
# Small record / accumulator classes used as a local object: `t = Tally(); t.add(n, ok); ...; return t.percent()`.
# The object is replaced by one local per field (t_matched, t_consumed) and its methods are inlined; the class is removed.
# Conditions: a top-level class without bases (optionally a plain @dataclass), fields with constant defaults or assigned in
# __init__, plain methods that touch the object only through `self.<field>`; every mention of the class is a construction
# `x = K(...)` assigned to a local that is used only as `x.<field>` / `x.<method>(...)` in that function.

class _SelfFields(ast.NodeTransformer):
    def __init__(self, self_name, mapping):
        self.self_name, self.mapping, self.bad = self_name, mapping, False

    def visit_Attribute(self, n):
        if isinstance(n.value, ast.Name) and n.value.id == self.self_name:
            if n.attr in self.mapping:
                return ast.copy_location(ast.Name(id=self.mapping[n.attr], ctx=n.ctx), n)
            self.bad = True
            return n
        return self.generic_visit(n)

    def visit_Name(self, n):
        if n.id == self.self_name:
            self.bad = True
        return n


def _parents(tree):
    parent = {}
    for n in ast.walk(tree):
        for c in ast.iter_child_nodes(n):
            parent[c] = n
    return parent


def _class_shape(k):
    """(fields in order, defaults, methods, is_dataclass) or None."""
    if k.keywords:
        return None
    dc = False
    if k.bases:
        # a typing.NamedTuple record: fields by annotation, construction by position or keyword, read-only
        if len(k.bases) == 1 and ((isinstance(k.bases[0], ast.Name) and k.bases[0].id == "NamedTuple") or (isinstance(k.bases[0], ast.Attribute) and k.bases[0].attr == "NamedTuple")) \
                and not k.decorator_list:
            dc = True
        else:
            return None
    for d in k.decorator_list:
        if isinstance(d, ast.Name) and d.id == "dataclass":
            dc = True
        else:
            return None
    fields, defaults, methods = [], {}, {}
    for st in k.body:
        if isinstance(st, ast.Expr) and isinstance(st.value, ast.Constant):
            continue
        if isinstance(st, ast.Assign) and len(st.targets) == 1 and isinstance(st.targets[0], ast.Name) and st.targets[0].id == "__slots__":
            continue
        if isinstance(st, ast.AnnAssign) and isinstance(st.target, ast.Name) and dc:
            v = st.value
            if isinstance(v, ast.Call) and isinstance(v.func, ast.Name) and v.func.id == "field" and not v.args and len(v.keywords) == 1 and v.keywords[0].arg == "default_factory" \
                    and isinstance(v.keywords[0].value, ast.Name) and v.keywords[0].value.id in ("list", "dict", "set", "bytearray"):
                # field(default_factory=list): a fresh empty container per object
                v = ast.copy_location(ast.Call(func=ast.Name(id=v.keywords[0].value.id, ctx=ast.Load()), args=[], keywords=[]), v)
            elif v is not None and not isinstance(v, ast.Constant):
                return None
            fields.append(st.target.id)
            if v is not None:
                defaults[st.target.id] = v
            continue
        if isinstance(st, ast.FunctionDef) and not st.decorator_list and st.args.args:
            methods[st.name] = st
            continue
        if isinstance(st, ast.FunctionDef) and len(st.decorator_list) == 1 and isinstance(st.decorator_list[0], ast.Name) and st.decorator_list[0].id == "property" \
                and len(st.args.args) == 1:
            # a read-only property: x.name reads as the value its getter returns
            methods["@" + st.name] = st
            continue
        return None
    if dc and "__init__" in methods:
        return None
    if not dc:
        for m in methods.values():
            sn = m.args.args[0].arg
            for x in ast.walk(m):
                if isinstance(x, ast.Attribute) and isinstance(x.value, ast.Name) and x.value.id == sn and isinstance(x.ctx, ast.Store) and x.attr not in fields:
                    fields.append(x.attr)
    if not fields or set(fields) & {m.lstrip("@") for m in methods}:
        return None
    return fields, defaults, methods, dc


class _K:
    name = "<record>"


def _pseudo_helper(mod, meth, mapping, methods=None):
    """The method as a function over the field locals (self.<f> -> <local>), or None.  Calls of other one-expression methods
    of the same object (`self.ratio()`) are replaced by those expressions first."""
    node = copy.deepcopy(meth)
    sn = node.args.args[0].arg
    for _ in range(6):
        parent = _parents(node)
        inner = [c for c in ast.walk(node) if isinstance(c, ast.Call) and isinstance(c.func, ast.Attribute) and isinstance(c.func.value, ast.Name) and c.func.value.id == sn
                 and methods and c.func.attr in methods and methods[c.func.attr] is not meth]
        if not inner:
            break
        c = inner[0]
        hm = _Helper(mod, _K, copy.deepcopy(methods[c.func.attr]))
        if hm.is_gen_safe() is False or not hm.expr_form():
            return None
        repl = _instantiate(hm, c, node, sn, "expr")
        if repl is None:
            return None
        holder = parent.get(c)
        for fname, val in ast.iter_fields(holder):
            if val is c:
                setattr(holder, fname, repl)
            elif isinstance(val, list):
                for i, v in enumerate(val):
                    if v is c:
                        val[i] = repl
    node.args.args = node.args.args[1:]
    node.name = node.name.strip("_") or "m"
    node.decorator_list = []
    tr = _SelfFields(sn, mapping)
    node.body = [tr.visit(st) for st in node.body]
    if tr.bad:
        return None
    h = _Helper(mod, None, node)
    if not h.admissible():
        return None
    return h


def _dissolve_object(trees, protected):
    for mn in sorted(trees):
        t = trees[mn]
        for k in [st for st in t.body if isinstance(st, ast.ClassDef)]:
            if k.name in protected:
                continue
            shape = _class_shape(k)
            if shape is None:
                continue
            # every mention of the class name, package wide
            elsewhere = False
            for mn2, t2 in trees.items():
                ann = set()
                for fdef in [n for n in ast.walk(t2) if isinstance(n, (ast.FunctionDef, ast.AsyncFunctionDef))]:
                    for a_ in fdef.args.posonlyargs + fdef.args.args + fdef.args.kwonlyargs:
                        if a_.annotation is not None:
                            ann.update(id(x) for x in ast.walk(a_.annotation))
                    if fdef.returns is not None:
                        ann.update(id(x) for x in ast.walk(fdef.returns))
                for n in ast.walk(t2):
                    if id(n) in ann:
                        continue        # a type annotation: evaluated to nothing that matters
                    if (isinstance(n, ast.Name) and n.id == k.name) or (isinstance(n, ast.Attribute) and n.attr == k.name) \
                            or (isinstance(n, ast.Constant) and n.value == k.name) or (isinstance(n, (ast.Import, ast.ImportFrom)) and any(k.name in (al.name, al.asname) for al in n.names)):
                        if mn2 != mn or not isinstance(n, ast.Name):
                            elsewhere = True
            if elsewhere:
                continue
            work = copy.deepcopy(t)
            if _dissolve_in(work, mn, k.name, shape):
                t.body[:] = work.body
                return "%s:%s (object dissolved into locals)" % (mn, k.name)
    return None


def _dissolve_in(tree, mn, kname, shape):
    fields, defaults, methods, dc = shape
    started = set()
    touched = []
    # type annotations that name the class go with it
    for fdef in [n for n in ast.walk(tree) if isinstance(n, (ast.FunctionDef, ast.AsyncFunctionDef))]:
        for a_ in fdef.args.posonlyargs + fdef.args.args + fdef.args.kwonlyargs:
            if a_.annotation is not None and any(isinstance(x, ast.Name) and x.id == kname for x in ast.walk(a_.annotation)):
                a_.annotation = None
        if fdef.returns is not None and any(isinstance(x, ast.Name) and x.id == kname for x in ast.walk(fdef.returns)):
            fdef.returns = None
    for _ in range(40):
        parent = _parents(tree)
        cons = [n for n in ast.walk(tree) if isinstance(n, ast.Name) and n.id == kname and isinstance(n.ctx, ast.Load)]
        if not cons:
            break
        ref = cons[0]
        call = parent.get(ref)
        asg = parent.get(call)
        if not (isinstance(call, ast.Call) and call.func is ref and isinstance(asg, ast.Assign) and asg.value is call and len(asg.targets) == 1 and isinstance(asg.targets[0], ast.Name)):
            return False
        x = asg.targets[0].id
        f = asg
        while f is not None and not isinstance(f, (ast.FunctionDef, ast.AsyncFunctionDef)):
            if isinstance(f, (ast.Lambda, ast.ClassDef)):
                return False
            f = parent.get(f)
        if not isinstance(f, ast.FunctionDef):
            return False
        # x is used only in f's own body, never inside a nested scope
        for n in ast.walk(f):
            if n is not f and isinstance(n, (ast.FunctionDef, ast.AsyncFunctionDef, ast.Lambda, ast.ClassDef)) and any(isinstance(y, ast.Name) and y.id == x for y in ast.walk(n)):
                return False
        if x in {a.arg for a in f.args.posonlyargs + f.args.args + f.args.kwonlyargs}:
            return False
        mapping = {fl: "%s_%s" % (x, fl) for fl in fields}
        if set(mapping.values()) & _all_names(f) and (f, x) not in started:
            return False
        started.add((f, x))
        uses = [n for n in ast.walk(f) if isinstance(n, ast.Name) and n.id == x]
        for n in uses:
            if isinstance(n.ctx, ast.Store):
                # every definition of x is a construction of the class (the arms of an if)
                a_ = parent.get(n)
                if not (isinstance(a_, ast.Assign) and len(a_.targets) == 1 and a_.targets[0] is n and isinstance(a_.value, ast.Call)
                        and isinstance(a_.value.func, ast.Name) and a_.value.func.id == kname):
                    return False
            elif isinstance(n.ctx, ast.Del):
                return False
        # 1. method calls, one at a time (the tree changes under us)
        for _ in range(60):
            parent = _parents(tree)
            pending = [n for n in ast.walk(f) if isinstance(n, ast.Name) and n.id == x and isinstance(n.ctx, ast.Load) and isinstance(parent.get(n), ast.Attribute)
                       and parent[n].attr in methods and isinstance(parent.get(parent[n]), ast.Call) and parent[parent[n]].func is parent[n]]
            if not pending:
                break
            attr = parent[pending[0]]
            mcall = parent[attr]
            h = _pseudo_helper(mn, methods[attr.attr], mapping, methods)
            if h is None or h.is_gen or attr.attr == "__init__":
                return False
            st = parent.get(mcall)
            if isinstance(st, ast.Return) and st.value is mcall:
                form = "tail"
            elif isinstance(st, ast.Expr) and st.value is mcall and h.stmt_form():
                form = "stmt"
            elif isinstance(st, ast.Assign) and st.value is mcall and len(st.targets) == 1 and h.assign_form():
                form = "assign"
            elif h.expr_form():
                form = "expr"
            else:
                # a value-returning method in guard-clause shape used inside an expression: bind it to a temporary first
                return False
            new = _instantiate(h, mcall, f, None, form, target=st.targets[0] if form == "assign" else None, shared=set(mapping.values()))
            if new is None:
                return False
            if form == "expr":
                holder = parent.get(mcall)
                for fname, val in ast.iter_fields(holder):
                    if val is mcall:
                        setattr(holder, fname, new)
                    elif isinstance(val, list):
                        for i, v in enumerate(val):
                            if v is mcall:
                                val[i] = new
            else:
                holder = parent.get(st)
                lst = next((getattr(holder, fn_) for fn_ in ("body", "orelse", "finalbody") if isinstance(getattr(holder, fn_, None), list) and st in getattr(holder, fn_)), None)
                if lst is None:
                    return False
                i = lst.index(st)
                lst[i:i + 1] = new
        # 2. field accesses
        parent = _parents(tree)
        for n in [n for n in ast.walk(f) if isinstance(n, ast.Name) and n.id == x and isinstance(n.ctx, ast.Load)]:
            a = parent.get(n)
            if isinstance(a, ast.Attribute) and a.value is n and ("@" + a.attr) in methods and isinstance(a.ctx, ast.Load):
                hp = _pseudo_helper(mn, methods["@" + a.attr], mapping, methods)
                if hp is None or hp.is_gen or not hp.expr_form():
                    return False
                fake = ast.copy_location(ast.Call(func=ast.Name(id=a.attr, ctx=ast.Load()), args=[], keywords=[]), a)
                repl = _instantiate(hp, fake, f, None, "expr", shared=set(mapping.values()))
                if repl is None:
                    return False
                holder = parent.get(a)
                for fname, val in ast.iter_fields(holder):
                    if val is a:
                        setattr(holder, fname, repl)
                    elif isinstance(val, list):
                        for i, v in enumerate(val):
                            if v is a:
                                val[i] = repl
                continue
            if not (isinstance(a, ast.Attribute) and a.value is n and a.attr in mapping):
                return False
            holder = parent.get(a)
            repl = ast.copy_location(ast.Name(id=mapping[a.attr], ctx=a.ctx), a)
            for fname, val in ast.iter_fields(holder):
                if val is a:
                    setattr(holder, fname, repl)
                elif isinstance(val, list):
                    for i, v in enumerate(val):
                        if v is a:
                            val[i] = repl
        # 3. the construction
        parent = _parents(tree)
        holder = parent.get(asg)
        lst = next((getattr(holder, fn_) for fn_ in ("body", "orelse", "finalbody") if isinstance(getattr(holder, fn_, None), list) and asg in getattr(holder, fn_)), None)
        if lst is None or any(isinstance(a, ast.Starred) for a in call.args) or any(kw.arg is None for kw in call.keywords):
            return False
        if dc or "__init__" not in methods:
            if not dc and (call.args or call.keywords):
                return False
            given = dict(zip(fields, call.args))
            if len(call.args) > len(fields):
                return False
            for kw in call.keywords:
                if kw.arg not in fields or kw.arg in given:
                    return False
                given[kw.arg] = kw.value
            new = []
            for fl in (fields if dc else []):
                v = given.get(fl, defaults.get(fl))
                if v is None:
                    return False
                new.append(ast.copy_location(ast.Assign(targets=[ast.Name(id=mapping[fl], ctx=ast.Store())], value=copy.deepcopy(v), lineno=asg.lineno), asg))
            new = new or [ast.copy_location(ast.Pass(), asg)]
        else:
            h = _pseudo_helper(mn, methods["__init__"], mapping, methods)
            if h is None or h.is_gen or not h.stmt_form():
                return False
            new = _instantiate(h, call, f, None, "stmt", shared=set(mapping.values()))
            if new is None:
                return False
        for st in new:
            ast.fix_missing_locations(st)
        i = lst.index(asg)
        lst[i:i + 1] = new
        touched.append((f, list(mapping.values())))
    for f, names in touched:
        _propagate_copies(f, names)
    # no mention left: remove the class
    if any(isinstance(n, ast.Name) and n.id == kname for n in ast.walk(tree)):
        return False
    tree.body[:] = [st for st in tree.body if not (isinstance(st, ast.ClassDef) and st.name == kname)]
    return True


def _propagate_copies(f, names):
    """Locals the normaliser itself introduced for the fields of a dissolved record: when every definition of such a local
    is the same plain copy (`x_root = hasher.root`, `x_layers = layers`, a constant), the uses read the original and the copy
    disappears.  Done only where the original cannot have been rebound in between (program order of the function body), and
    for an attribute chain only where the object it starts from is not touched in between except by attribute reads."""
    order = {}

    def number(n):
        order[id(n)] = len(order)
        for c in ast.iter_child_nodes(n):
            number(c)
    for nm in names:
        order.clear()
        number(f)
        parent = _parents(f)
        stores = [n for n in ast.walk(f) if isinstance(n, ast.Name) and n.id == nm and isinstance(n.ctx, (ast.Store, ast.Del))]
        defs = [parent.get(n) for n in stores]
        if not defs or not all(isinstance(d, ast.Assign) and len(d.targets) == 1 and d.targets[0] is n for d, n in zip(defs, stores)):
            continue
        if len({ast.dump(d.value) for d in defs}) != 1:
            continue
        E = defs[0].value
        base = E
        while isinstance(base, ast.Attribute):
            base = base.value
        if not (isinstance(E, ast.Constant) or isinstance(base, ast.Name)) or (isinstance(E, ast.Name) and E.id in names):
            continue
        loads = [n for n in ast.walk(f) if isinstance(n, ast.Name) and n.id == nm and isinstance(n.ctx, ast.Load)]
        if not loads:
            continue
        first, last = min(order[id(d)] for d in defs), max(order[id(n)] for n in loads)
        if min(order[id(n)] for n in loads) < first:
            continue
        if isinstance(base, ast.Name):
            b = base.id
            # the original is not rebound after the first copy was taken
            if any(isinstance(n, ast.Name) and n.id == b and isinstance(n.ctx, (ast.Store, ast.Del)) and order[id(n)] > first for n in ast.walk(f)):
                continue
            inside_loop = any(isinstance(a, (ast.For, ast.While)) for d in defs for a in _ancestors(parent, d))
            if isinstance(E, ast.Attribute):
                touched = False
                for n in ast.walk(f):
                    if isinstance(n, ast.Name) and n.id == b and first < order[id(n)] <= last:
                        a = parent.get(n)
                        if not (isinstance(a, ast.Attribute) and a.value is n and isinstance(a.ctx, ast.Load)
                                and not (isinstance(parent.get(a), ast.Call) and parent[a].func is a)):
                            touched = True
                if touched or inside_loop:
                    continue
        for n in loads:
            h = parent.get(n)
            repl = ast.copy_location(copy.deepcopy(E), n)
            for fname, val in ast.iter_fields(h):
                if val is n:
                    setattr(h, fname, repl)
                elif isinstance(val, list):
                    for i, v in enumerate(val):
                        if v is n:
                            val[i] = repl
        for d in defs:
            h = parent.get(d)
            for fname in ("body", "orelse", "finalbody"):
                lst = getattr(h, fname, None)
                if isinstance(lst, list) and d in lst:
                    lst.remove(d)
                    if not lst and fname == "body":
                        lst.append(ast.copy_location(ast.Pass(), d))
        parent = _parents(f)


def _ancestors(parent, n):
    n = parent.get(n)
    while n is not None:
        yield n
        n = parent.get(n)


# ---------------------------------------------------------------------------------------------------------------------------
# Idiom lowering:  X = next((E for T in IT if C), D)   ==>   X = D / for T in IT: if C: X = E; break
# (also with the generator bound to a local that has no other use).  Same value, same order of evaluation of IT, C and E.

def _lower_first_match(tree):
    count = 0
    for f in [n for n in ast.walk(tree) if isinstance(n, ast.FunctionDef)]:
        for _ in range(10):
            if not _lower_one(f):
                break
            count += 1
    return count


def _lower_one(f):
    parent = _parents(f)
    own = []
    stack = list(f.body)
    while stack:
        n = stack.pop()
        if isinstance(n, (ast.FunctionDef, ast.AsyncFunctionDef, ast.ClassDef, ast.Lambda)):
            continue
        own.append(n)
        stack.extend(ast.iter_child_nodes(n))
    for st in own:
        if not (isinstance(st, ast.Assign) and len(st.targets) == 1 and isinstance(st.targets[0], ast.Name) and isinstance(st.value, ast.Call)
                and isinstance(st.value.func, ast.Name) and st.value.func.id == "next" and len(st.value.args) == 2 and not st.value.keywords):
            continue
        src, default = st.value.args
        holder = parent.get(st)
        lst = next((getattr(holder, fn_) for fn_ in ("body", "orelse", "finalbody") if isinstance(getattr(holder, fn_, None), list) and st in getattr(holder, fn_)), None)
        if lst is None or not _pure(default):
            continue
        gen_stmt = None
        if isinstance(src, ast.Name):
            # the generator was bound to a local just before, and is used nowhere else
            i = lst.index(st)
            prev = lst[i - 1] if i > 0 else None
            uses = [n for n in own if isinstance(n, ast.Name) and n.id == src.id]
            if not (isinstance(prev, ast.Assign) and len(prev.targets) == 1 and isinstance(prev.targets[0], ast.Name) and prev.targets[0].id == src.id
                    and isinstance(prev.value, ast.GeneratorExp) and len(uses) == 2):
                continue
            gen_stmt, src = prev, prev.value
        if not (isinstance(src, ast.GeneratorExp) and len(src.generators) == 1 and not src.generators[0].is_async):
            continue
        gen = src.generators[0]
        x = st.targets[0].id
        tnames = {n.id for n in ast.walk(gen.target) if isinstance(n, ast.Name)}
        others = {n.id for n in own if isinstance(n, ast.Name)} - {n.id for n in ast.walk(src) if isinstance(n, ast.Name)}
        if tnames & others or x in tnames or any(isinstance(n, ast.Name) and n.id == x for n in ast.walk(src)):
            continue            # the loop variables would become visible under a name the function already uses
        hit = [ast.copy_location(ast.Assign(targets=[ast.Name(id=x, ctx=ast.Store())], value=src.elt, lineno=st.lineno), st), ast.copy_location(ast.Break(), st)]
        body = hit
        if gen.ifs:
            test = gen.ifs[0] if len(gen.ifs) == 1 else ast.BoolOp(op=ast.And(), values=list(gen.ifs))
            body = [ast.copy_location(ast.If(test=test, body=hit, orelse=[]), st)]
        loop = ast.copy_location(ast.For(target=gen.target, iter=gen.iter, body=body, orelse=[], lineno=st.lineno), st)
        for n in ast.walk(gen.target):
            if hasattr(n, "ctx"):
                n.ctx = ast.Store()
        init = ast.copy_location(ast.Assign(targets=[ast.Name(id=x, ctx=ast.Store())], value=default, lineno=st.lineno), st)
        new = [init, loop]
        for n_ in new:
            ast.fix_missing_locations(n_)
        i = lst.index(st)
        lst[i:i + 1] = new
        if gen_stmt is not None:
            lst.remove(gen_stmt)
        return True
    return False


# ---------------------------------------------------------------------------------------------------------------------------
# Table-driven code:  for x in ("a", "b"): BODY   ==>   BODY[x := "a"]; BODY[x := "b"]
# for a literal tuple / list (directly, or a module-level name bound once to one) of at most 8 rows whose cells are constants,
# names or attribute chains; tuple targets take the columns.  Not when BODY assigns a loop variable, or leaves the loop by
# break / continue at its own level, or the loop has an else clause.

def _unroll_constant_loops(tree):
    consts = {}
    counts = {}
    for st in tree.body:
        if isinstance(st, ast.Assign) and len(st.targets) == 1 and isinstance(st.targets[0], ast.Name):
            counts[st.targets[0].id] = counts.get(st.targets[0].id, 0) + 1
            consts[st.targets[0].id] = st.value
    consts = {k: v for k, v in consts.items() if counts[k] == 1 and isinstance(v, (ast.Tuple, ast.List))}
    rebound = {n.id for n in ast.walk(tree) if isinstance(n, ast.Name) and isinstance(n.ctx, (ast.Store, ast.Del)) and n.id in consts}
    n_done = 0
    changed = True
    while changed and n_done < 40:
        changed = False
        for holder in ast.walk(tree):
            for fname in ("body", "orelse", "finalbody"):
                lst = getattr(holder, fname, None)
                if not isinstance(lst, list):
                    continue
                for i, st in enumerate(lst):
                    if not isinstance(st, ast.For) or st.orelse:
                        continue
                    table = st.iter
                    if isinstance(table, ast.Name) and table.id in consts and sum(1 for n in ast.walk(tree) if isinstance(n, ast.Name) and n.id == table.id and isinstance(n.ctx, ast.Store)) == 1:
                        table = consts[table.id]
                    if not isinstance(table, (ast.Tuple, ast.List)) or not (1 <= len(table.elts) <= 8):
                        continue
                    targets = [st.target] if isinstance(st.target, ast.Name) else (list(st.target.elts) if isinstance(st.target, (ast.Tuple, ast.List)) else None)
                    if not targets or not all(isinstance(t, ast.Name) for t in targets):
                        continue
                    tnames = [t.id for t in targets]

                    def cell_ok(c):
                        return isinstance(c, ast.Constant) or _simple_arg(c, True)
                    rows = []
                    for r in table.elts:
                        if isinstance(st.target, ast.Name):
                            rows.append([r]) if cell_ok(r) else rows.append(None)
                        elif isinstance(r, (ast.Tuple, ast.List)) and len(r.elts) == len(tnames) and all(cell_ok(c) for c in r.elts):
                            rows.append(list(r.elts))
                        else:
                            rows.append(None)
                    if any(r is None for r in rows):
                        continue
                    # the body neither rebinds a loop variable nor leaves / restarts the loop at its own level
                    bad = False
                    stack = list(st.body)
                    while stack:
                        n = stack.pop()
                        if isinstance(n, (ast.Break, ast.Continue)):
                            bad = True
                        if isinstance(n, (ast.For, ast.While, ast.FunctionDef, ast.AsyncFunctionDef, ast.Lambda, ast.ClassDef)):
                            # break / continue inside belong to the inner loop; names inside a nested scope are left alone
                            if any(isinstance(x, ast.Name) and x.id in tnames and isinstance(x.ctx, ast.Store) for x in ast.walk(n)):
                                bad = True
                            if isinstance(n, (ast.FunctionDef, ast.AsyncFunctionDef, ast.Lambda, ast.ClassDef)) and any(isinstance(x, ast.Name) and x.id in tnames for x in ast.walk(n)):
                                bad = True
                            continue
                        if isinstance(n, ast.Name) and n.id in tnames and isinstance(n.ctx, (ast.Store, ast.Del)):
                            bad = True
                        stack.extend(ast.iter_child_nodes(n))
                    # loop variables read after the loop keep their last value: refuse
                    f = holder
                    after_use = any(isinstance(x, ast.Name) and x.id in tnames for later in lst[i + 1:] for x in ast.walk(later))
                    if bad or after_use:
                        continue
                    new = []
                    for r in rows:
                        ren = _Rename({}, dict(zip(tnames, r)))
                        for b in st.body:
                            new.append(ren.visit(copy.deepcopy(b)))
                    for n_ in new:
                        ast.fix_missing_locations(n_)
                    lst[i:i + 1] = new
                    n_done += 1
                    changed = True
                    break
                if changed:
                    break
            if changed:
                break
    return n_done


# ---------------------------------------------------------------------------------------------------------------------------
# X.update({"k": v, ...})  ==>  X["k"] = v; ...      (statement; constant keys; also through a local bound once to the display
# just for this purpose - what `**extra` of an inlined helper becomes).  X.update({}) disappears.

def _lower_updates(trees):
    did = False
    for t in trees.values():
        for f in [n for n in ast.walk(t) if isinstance(n, ast.FunctionDef)]:
            for _ in range(20):
                if not _lower_update_in(f):
                    break
                did = True
    return did


def _lower_update_in(f):
    parent = _parents(f)
    own = [n for n in ast.walk(f)]
    for st in own:
        if not (isinstance(st, ast.Expr) and isinstance(st.value, ast.Call) and isinstance(st.value.func, ast.Attribute) and st.value.func.attr == "update"
                and len(st.value.args) == 1 and not st.value.keywords and _simple_target(st.value.func.value)):
            continue
        arg = st.value.args[0]
        drop = None
        if isinstance(arg, ast.Name):
            defs = [n for n in own if isinstance(n, ast.Assign) and len(n.targets) == 1 and isinstance(n.targets[0], ast.Name) and n.targets[0].id == arg.id]
            uses = [n for n in own if isinstance(n, ast.Name) and n.id == arg.id]
            if len(defs) == 1 and len(uses) == 2 and isinstance(defs[0].value, ast.Dict):
                drop, arg = defs[0], defs[0].value
        if not (isinstance(arg, ast.Dict) and all(k is not None and isinstance(k, ast.Constant) for k in arg.keys) and all(_pure(v) or isinstance(v, ast.Call) for v in arg.values)):
            continue
        holder = parent.get(st)
        lst = next((getattr(holder, fn_) for fn_ in ("body", "orelse", "finalbody") if isinstance(getattr(holder, fn_, None), list) and st in getattr(holder, fn_)), None)
        if lst is None:
            continue
        if drop is not None:
            h2 = parent.get(drop)
            l2 = next((getattr(h2, fn_) for fn_ in ("body", "orelse", "finalbody") if isinstance(getattr(h2, fn_, None), list) and drop in getattr(h2, fn_)), None)
            if l2 is None or not all(_pure(v) for v in arg.values):
                continue        # the values would be evaluated later than they were
            l2.remove(drop)
            if not l2:
                l2.append(ast.copy_location(ast.Pass(), drop))
        new = []
        for k, v in zip(arg.keys, arg.values):
            tgt = ast.Subscript(value=copy.deepcopy(st.value.func.value), slice=k, ctx=ast.Store())
            new.append(ast.copy_location(ast.Assign(targets=[tgt], value=v, lineno=st.lineno), st))
        for n_ in new:
            ast.fix_missing_locations(n_)
        i = lst.index(st)
        lst[i:i + 1] = new or ([ast.copy_location(ast.Pass(), st)] if len(lst) == 1 else [])
        return True
    return False
