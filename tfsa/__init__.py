"""tfsa - static analysis engine for alexpdev/torrentfile (stdlib ``ast`` only).

Nothing from the analysed repository is imported or executed.
"""
