"""Obligations, verdicts, evidence files, known findings."""
import ast
import json
import os
import time

from .loader import Program, AnalysisError
from .resolve import Resolver
from .callgraph import CallGraph
from .effects import EffectSummary

HOLDS, VIOLATED, UNDECIDED = "HOLDS", "VIOLATED", "UNDECIDED"
VERIF = os.path.dirname(os.path.dirname(os.path.abspath(__file__)))


def norm(node_or_text):
    """Normalised construct text (no line numbers, no formatting)."""
    if node_or_text is None:
        return ""
    if isinstance(node_or_text, str):
        return " ".join(node_or_text.split())
    try:
        return " ".join(ast.unparse(node_or_text).split())
    except Exception:
        return type(node_or_text).__name__


class Obligation:
    def __init__(self, prop, rule, site, status, detail, construct="", path="", nontrivial=True, line=None, file=None):
        self.prop = prop
        self.rule = rule
        self.site = site            # module:qualname
        self.status = status
        self.detail = detail
        self.construct = norm(construct)
        self.path = path
        self.nontrivial = nontrivial
        self.line = line
        self.file = file

    def key(self):
        return (self.prop, self.rule, self.site, self.construct)

    def as_dict(self):
        d = {"rule": self.rule, "site": self.site, "status": self.status, "detail": self.detail}
        if self.construct:
            d["construct"] = self.construct[:300]
        if self.path:
            d["path"] = self.path
        if self.line:
            d["line"] = self.line
        if self.file:
            d["file"] = self.file
        return d


class Ctx:
    """Analysis context for one run over one source tree."""

    def __init__(self, root, prop, normalise=False):
        self.root = root
        self.prop = prop
        self.prog = Program(root, normalise=normalise)
        self.res = Resolver(self.prog)
        self._cg = None
        self._eff = None
        self.obs = []
        self.info = {}          # extra evidence (tables, counts)
        self.floors = []        # (name, floor, actual)
        self.trusted = []

    @property
    def cg(self):
        if self._cg is None:
            self._cg = CallGraph(self.prog, self.res)
        return self._cg

    @property
    def eff(self):
        if self._eff is None:
            self._eff = EffectSummary(self.prog, self.cg)
        return self._eff

    # ..................................................................
    def where(self, fn_or_qual):
        if fn_or_qual is None:
            return "<module>"
        return fn_or_qual if isinstance(fn_or_qual, str) else fn_or_qual.qual

    def _file_line(self, fn, node):
        f = None
        if fn is not None and not isinstance(fn, str):
            f = os.path.relpath(fn.module.path, self.root)
        line = getattr(node, "lineno", None) if node is not None and not isinstance(node, str) else None
        if line is None and fn is not None and not isinstance(fn, str):
            line = fn.node.lineno
        return f, line

    def ob(self, rule, fn, status, detail, construct=None, path="", nontrivial=True, prop=None):
        f, line = self._file_line(fn, construct)
        o = Obligation(prop or self.prop, rule, self.where(fn), status, detail, construct, path, nontrivial, line, f)
        self.obs.append(o)
        return o

    def holds(self, rule, fn, detail, construct=None, **kw):
        return self.ob(rule, fn, HOLDS, detail, construct, **kw)

    def violated(self, rule, fn, detail, construct=None, **kw):
        return self.ob(rule, fn, VIOLATED, detail, construct, **kw)

    def undecided(self, rule, fn, detail, construct=None, **kw):
        return self.ob(rule, fn, UNDECIDED, detail, construct, **kw)

    def decide(self, rule, fn, cond, detail_ok, detail_bad, construct=None, **kw):
        if cond:
            return self.holds(rule, fn, detail_ok, construct, **kw)
        return self.violated(rule, fn, detail_bad, construct, **kw)

    def floor(self, name, floor, actual):
        self.floors.append((name, floor, actual))

    def trust(self, text):
        if text not in self.trusted:
            self.trusted.append(text)


def load_known(path=None):
    path = path or os.path.join(VERIF, "known_findings.json")
    if not os.path.exists(path):
        return []
    with open(path) as fh:
        return json.load(fh).get("findings", [])


def match_known(ob, known):
    for k in known:
        if k.get("status") != "known":
            continue
        if k.get("property") == ob.prop and k.get("rule") == ob.rule and k.get("site") == ob.site \
                and norm(k.get("construct", "")) == ob.construct:
            return k
    return None


def finish(ctx, tier, seed, t0, explanation, rule_text, extra=None, out_dir=None, quiet=False, write=True):
    """Decide the exit code, print the report lines, write evidence. Returns exit code."""
    known = load_known()
    prop = ctx.prop
    out_dir = out_dir or os.path.join(VERIF, "evidence")
    viol, und, known_hits = [], [], []
    for o in ctx.obs:
        if o.status == VIOLATED:
            k = match_known(o, known)
            if k:
                known_hits.append((o, k))
            else:
                viol.append(o)
        elif o.status == UNDECIDED:
            und.append(o)
    floor_fail = [(n, f, a) for (n, f, a) in ctx.floors if a < f]
    lines = []
    for o, k in known_hits:
        lines.append("KNOWN-FINDING: property=%s %s" % (prop, k.get("what", o.detail)))
    replay_dir = os.path.join(out_dir, "replay")
    vi = 0
    for o in viol:
        vi += 1
        rp = os.path.join(replay_dir, "%s-%d.json" % (prop, vi))
        if write:
            os.makedirs(replay_dir, exist_ok=True)
            with open(rp, "w") as fh:
                json.dump({"property": prop, "root": ctx.root, "obligation": o.as_dict()}, fh, indent=1)
        lines.append("VIOLATION property=%s replay=%s" % (prop, rp))
        lines.append("  rule %s at %s%s: %s" % (o.rule, o.site, (" (%s:%s)" % (o.file, o.line)) if o.file else "", o.detail))
        if o.construct:
            lines.append("  construct: %s" % o.construct[:200])
        if o.path:
            lines.append("  path: %s" % o.path)
    for o in und:
        lines.append("ANALYSIS-ERROR property=%s rule %s at %s: %s" % (prop, o.rule, o.site, o.detail))
    for n, f, a in floor_fail:
        lines.append("ANALYSIS-ERROR property=%s instance floor not met: %s expected >= %d, found %d" % (prop, n, f, a))
    if viol:
        code = 1
    elif und or floor_fail:
        code = 2
    else:
        code = 0
    n_ob = len(ctx.obs)
    n_ok = sum(1 for o in ctx.obs if o.status == HOLDS)
    distinct = len({o.key() for o in ctx.obs if o.nontrivial})
    samples = [o.as_dict() for o in ctx.obs if o.status != HOLDS][:20]
    seen_rules = set()
    for o in ctx.obs:
        if o.status == HOLDS and o.rule not in seen_rules:
            seen_rules.add(o.rule)
            samples.append(o.as_dict())
    for o in ctx.obs:
        if len(samples) >= 40:
            break
        if o.status == HOLDS and o.as_dict() not in samples:
            samples.append(o.as_dict())
    by_rule = {}
    for o in ctx.obs:
        r = by_rule.setdefault(o.rule, {"HOLDS": 0, "VIOLATED": 0, "UNDECIDED": 0})
        r[o.status] += 1
    cov = {
        "explanation": explanation,
        "rule": rule_text,
        "obligations": n_ob,
        "discharged": n_ok,
        "undecided": len(und),
        "violated_unlisted": len(viol),
        "violated_known": len(known_hits),
        "evaluations": max(n_ob, 1),
        "distinct_nontrivial": distinct,
        "samples": samples,
        "by_rule": by_rule,
        "instance_floors": [{"what": n, "floor": f, "found": a} for (n, f, a) in ctx.floors],
        "checker_cmd": "/venv/bin/python /verif/check.py %s --tier %s" % (prop, tier),
        "trusted_base": ctx.trusted,
        "files_analysed": ctx.prog.files_digest(),
        "functions_analysed": len(ctx.prog.functions),
        "exhaustive": True,
    }
    if ctx._cg is not None:
        cov["call_graph"] = dict(ctx.cg.stats)
    cov.update(ctx.info)
    if extra:
        cov.update(extra)
    ev = {
        "property_id": prop,
        "tier": tier,
        "seed": seed,
        "level": "other",
        "coverage": cov,
        "assumptions": ctx.trusted,
        "wall_s": round(time.time() - t0, 3),
        "violations": len(viol),
        "exit_code": code,
    }
    if write:
        os.makedirs(out_dir, exist_ok=True)
        with open(os.path.join(out_dir, prop + ".json"), "w") as fh:
            json.dump(ev, fh, indent=1, sort_keys=False, default=str)
    if not quiet:
        print("%s tier=%s: %d obligations, %d hold, %d violated (%d known), %d undecided  [%.2fs]" % (
            prop, tier, n_ob, n_ok, len(viol) + len(known_hits), len(known_hits), len(und), time.time() - t0))
        for r, c in sorted(by_rule.items()):
            print("  %-8s holds=%d violated=%d undecided=%d" % (r, c["HOLDS"], c["VIOLATED"], c["UNDECIDED"]))
        for ln in lines:
            print(ln)
    return code, ev
