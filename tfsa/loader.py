"""Loader: parse the package, build module / class / function tables."""
import ast
import hashlib
import os


class AnalysisError(Exception):
    """The analyser met something it cannot interpret (=> UNDECIDED, exit 2)."""


class Func:
    def __init__(self, module, node, cls, qualname):
        self.module = module
        self.node = node
        self.cls = cls
        self.qualname = qualname          # e.g. "Memo.__call__"
        self.qual = module.name + ":" + qualname
        self.name = node.name
        a = node.args
        self.params = [x.arg for x in a.posonlyargs + a.args]
        self.kwonly = [x.arg for x in a.kwonlyargs]
        self.vararg = a.vararg.arg if a.vararg else None
        self.kwarg = a.kwarg.arg if a.kwarg else None
        self.decorators = node.decorator_list
        self.is_static = any(isinstance(d, ast.Name) and d.id == "staticmethod" for d in self.decorators)
        self.is_classmethod = any(isinstance(d, ast.Name) and d.id == "classmethod" for d in self.decorators)
        self.is_generator = any(isinstance(n, (ast.Yield, ast.YieldFrom)) for n in own_nodes(node))

    @property
    def self_name(self):
        if self.cls is not None and not self.is_static and self.params:
            return self.params[0]
        return None

    def all_params(self):
        return self.params + self.kwonly + ([self.vararg] if self.vararg else []) + ([self.kwarg] if self.kwarg else [])

    def defaults(self):
        """param name -> default expr"""
        a = self.node.args
        pos = a.posonlyargs + a.args
        out = {}
        for p, d in zip(pos[len(pos) - len(a.defaults):], a.defaults):
            out[p.arg] = d
        for p, d in zip(a.kwonlyargs, a.kw_defaults):
            if d is not None:
                out[p.arg] = d
        return out

    def annotation(self, name):
        a = self.node.args
        for p in a.posonlyargs + a.args + a.kwonlyargs:
            if p.arg == name:
                return p.annotation
        return None

    def __repr__(self):
        return "<Func %s>" % self.qual


class Class:
    def __init__(self, module, node, outer, qualname):
        self.module = module
        self.node = node
        self.outer = outer
        self.qualname = qualname
        self.qual = module.name + ":" + qualname
        self.name = node.name
        self.methods = {}
        self.nested = {}
        self.base_exprs = node.bases
        self.bases = []       # resolved Class objects (package only)
        self.ext_bases = []   # dotted names of external bases
        self.class_assigns = {}  # name -> [value expr]

    def __repr__(self):
        return "<Class %s>" % self.qual


def _parse(src, path):
    """The module's tree, assignment expressions written out as statements (tfsa/walrus.py; nothing to do on the pinned tree)."""
    tree = ast.parse(src, filename=path)
    from . import walrus
    if ":=" in src:
        try:
            walrus.lower(tree)
        except Exception:       # never a verdict: read the tree as written
            tree = ast.parse(src, filename=path)
    if "+=" in src:
        try:
            walrus.lower_augadd(tree)       # `seq += more` on a local list / bytearray is seq.extend(more)
        except Exception:
            pass
    if ".items()" in src:
        try:
            walrus.unroll_local_tables(tree)    # a local display walked once with .items(): written out row by row
        except Exception:
            tree = ast.parse(src, filename=path)
    return tree


class Module:
    def __init__(self, name, path, src, tree=None):
        self.name = name
        self.path = path
        self.src = src
        self.tree = tree if tree is not None else _parse(src, path)
        self.digest = hashlib.sha256(src.encode("utf-8")).hexdigest()
        self.imports = {}     # local name -> dotted
        self.functions = {}   # top-level name -> Func
        self.classes = {}     # top-level name -> Class
        self.assigns = {}     # top-level name -> [value expr]


def own_nodes(fnode):
    """All AST nodes of a function body, not descending into nested defs/classes (cached list)."""
    cached = getattr(fnode, "_own_cache", None)
    if cached is not None:
        return cached
    out = []
    stack = list(fnode.body) if hasattr(fnode, "body") and isinstance(fnode.body, list) else [fnode.body]
    while stack:
        n = stack.pop()
        out.append(n)
        if isinstance(n, (ast.FunctionDef, ast.AsyncFunctionDef, ast.ClassDef)):
            # a nested definition is a statement of this body; its own body belongs to the nested scope
            for d in n.decorator_list:
                stack.append(d)
            continue
        for c in ast.iter_child_nodes(n):
            if isinstance(c, (ast.FunctionDef, ast.AsyncFunctionDef, ast.ClassDef)):
                # decorators / defaults are evaluated in the enclosing scope
                for d in getattr(c, "decorator_list", []):
                    stack.append(d)
                continue
            stack.append(c)
    try:
        fnode._own_cache = out
    except AttributeError:
        pass
    return out


def own_nodes_ordered(fnode):
    """Like own_nodes but in source order."""
    return sorted((n for n in own_nodes(fnode) if hasattr(n, "lineno")),
                  key=lambda n: (n.lineno, n.col_offset))


class Program:
    """All parsed modules of the package under ``root``."""

    PKG = "torrentfile"

    def __init__(self, root, normalise=False):
        self.root = os.path.abspath(root)
        self.modules = {}
        self.functions = {}
        self.classes = {}
        self.parent = {}
        self.normalise = normalise
        self.dissolved = []       # helpers inlined into their callers (second reading, see tfsa/inline.py)
        self._load()
        self._link()

    # ------------------------------------------------------------------
    def _load(self):
        pkgdir = os.path.join(self.root, self.PKG)
        if not os.path.isdir(pkgdir):
            raise AnalysisError("package directory missing: %s" % pkgdir)
        files = []
        for dirpath, dirnames, filenames in os.walk(pkgdir):
            dirnames[:] = sorted(d for d in dirnames if d != "__pycache__")
            for fn in sorted(filenames):
                if fn.endswith(".py"):
                    files.append(os.path.join(dirpath, fn))
        pre = {}
        if self.normalise:
            from . import inline
            srcs = {}
            for path in files:
                rel = os.path.relpath(path, self.root)[:-3].replace(os.sep, ".")
                if rel.endswith(".__init__"):
                    rel = rel[: -len(".__init__")]
                with open(path, encoding="utf-8") as fh:
                    srcs[rel] = fh.read()
                try:
                    pre[rel] = _parse(srcs[rel], path)
                except SyntaxError as exc:
                    raise AnalysisError("cannot parse %s: %s" % (path, exc))
            try:
                self.dissolved = inline.normalise(pre, inline.protected_names())
            except Exception as exc:     # a defect of the normaliser must never become a verdict: read the tree as written
                self.dissolved = []
                self.normalise_error = repr(exc)
                pre = {}
        for path in files:
            rel = os.path.relpath(path, self.root)[:-3].replace(os.sep, ".")
            if rel.endswith(".__init__"):
                rel = rel[: -len(".__init__")]
            self._add_module(rel, path, pre.get(rel))
        script = os.path.join(self.root, "bin", "torrentfile")
        if os.path.isfile(script):
            self._add_module("bin.torrentfile", script)

    def _add_module(self, name, path, tree=None):
        with open(path, encoding="utf-8") as fh:
            src = fh.read()
        try:
            mod = Module(name, path, src, tree)
        except SyntaxError as exc:
            raise AnalysisError("cannot parse %s: %s" % (path, exc))
        self.modules[name] = mod
        for node in ast.walk(mod.tree):
            for child in ast.iter_child_nodes(node):
                self.parent[child] = node
        self._scan_scope(mod, mod.tree.body, None, "")

    def _scan_scope(self, mod, body, cls, prefix):
        for st in body:
            if isinstance(st, (ast.FunctionDef, ast.AsyncFunctionDef)):
                fn = Func(mod, st, cls, prefix + st.name)
                self.functions[fn.qual] = fn
                if cls is None:
                    mod.functions[st.name] = fn
                else:
                    cls.methods[st.name] = fn
                self._scan_nested(mod, st, fn)
            elif isinstance(st, ast.ClassDef):
                c = Class(mod, st, cls, prefix + st.name)
                self.classes[c.qual] = c
                if cls is None:
                    mod.classes[st.name] = c
                else:
                    cls.nested[st.name] = c
                self._scan_scope(mod, st.body, c, prefix + st.name + ".")
            elif isinstance(st, (ast.Import, ast.ImportFrom)) and cls is None:
                self._imports(mod, st)
            elif isinstance(st, (ast.Assign, ast.AnnAssign)):
                targets = st.targets if isinstance(st, ast.Assign) else [st.target]
                if st.value is None:
                    continue
                for t in targets:
                    if isinstance(t, ast.Name):
                        store = mod.assigns if cls is None else cls.class_assigns
                        store.setdefault(t.id, []).append(st.value)
            elif isinstance(st, (ast.If, ast.Try)) and cls is None:
                # module level conditional imports / assignments
                for sub in ast.walk(st):
                    if isinstance(sub, (ast.Import, ast.ImportFrom)):
                        self._imports(mod, sub)

    def _scan_nested(self, mod, fnode, outer_fn):
        # nested functions (closures): registered as separate functions
        for n in own_nodes(fnode):
            for c in ast.iter_child_nodes(n):
                if isinstance(c, (ast.FunctionDef, ast.AsyncFunctionDef)):
                    fn = Func(mod, c, None, outer_fn.qualname + ".<locals>." + c.name)
                    fn.outer_fn = outer_fn
                    self.functions[fn.qual] = fn
                    self._scan_nested(mod, c, fn)
        for c in fnode.body:
            if isinstance(c, (ast.FunctionDef, ast.AsyncFunctionDef)):
                fn = Func(mod, c, None, outer_fn.qualname + ".<locals>." + c.name)
                fn.outer_fn = outer_fn
                if fn.qual not in self.functions:
                    self.functions[fn.qual] = fn
                    self._scan_nested(mod, c, fn)

    def _imports(self, mod, st):
        if isinstance(st, ast.Import):
            for al in st.names:
                if al.asname:
                    mod.imports[al.asname] = al.name
                else:
                    mod.imports[al.name.split(".")[0]] = al.name.split(".")[0]
        else:
            base = st.module or ""
            if st.level:
                parts = mod.name.split(".")
                # a module's package is its name minus the last component
                pk = parts[: len(parts) - st.level] if not mod.path.endswith("__init__.py") else parts[: len(parts) - st.level + 1]
                base = ".".join(pk + ([base] if base else []))
            for al in st.names:
                mod.imports[al.asname or al.name] = base + "." + al.name

    def _link(self):
        for c in self.classes.values():
            for b in c.base_exprs:
                tgt = self.resolve_static(c.module, b)
                if tgt and tgt[0] == "class":
                    c.bases.append(tgt[1])
                elif tgt and tgt[0] == "ext":
                    c.ext_bases.append(tgt[1])
                else:
                    c.ext_bases.append(ast.unparse(b))

    # ------------------------------------------------------------------
    def resolve_dotted(self, dotted):
        """dotted name -> ('mod', Module) | ('func', Func) | ('class', Class) | ('modattr', Module, name) | None"""
        if dotted in self.modules:
            return ("mod", self.modules[dotted])
        if "." in dotted:
            head, tail = dotted.rsplit(".", 1)
            if head in self.modules:
                m = self.modules[head]
                seen = set()
                while True:
                    if tail in m.functions:
                        return ("func", m.functions[tail])
                    if tail in m.classes:
                        return ("class", m.classes[tail])
                    if tail in m.assigns:
                        return ("modattr", m, tail)
                    if tail in m.imports and (m.name, tail) not in seen:
                        seen.add((m.name, tail))
                        return self.resolve_dotted(m.imports[tail]) or ("ext", m.imports[tail])
                    return None
        return None

    def resolve_static(self, mod, expr):
        """Resolve a Name/Attribute chain at module scope without type inference."""
        if isinstance(expr, ast.Name):
            if expr.id in mod.classes:
                return ("class", mod.classes[expr.id])
            if expr.id in mod.functions:
                return ("func", mod.functions[expr.id])
            if expr.id in mod.imports:
                d = mod.imports[expr.id]
                r = self.resolve_dotted(d)
                if r:
                    return r
                return ("ext", d)
            return None
        if isinstance(expr, ast.Attribute):
            base = self.resolve_static(mod, expr.value)
            if base is None:
                return None
            if base[0] == "mod":
                m = base[1]
                r = self.resolve_dotted(m.name + "." + expr.attr)
                return r
            if base[0] == "ext":
                return ("ext", base[1] + "." + expr.attr)
            if base[0] == "class":
                c = base[1]
                if expr.attr in c.nested:
                    return ("class", c.nested[expr.attr])
                m = self.find_method(c, expr.attr)
                if m:
                    return ("func", m)
        return None

    # ------------------------------------------------------------------
    def mro(self, cls):
        """C3-ish linearisation (package classes only)."""
        out = []

        def merge(seqs):
            res = []
            seqs = [list(s) for s in seqs if s]
            while seqs:
                for s in seqs:
                    cand = s[0]
                    if not any(cand in t[1:] for t in seqs):
                        break
                else:
                    raise AnalysisError("inconsistent MRO for %s" % cls.qual)
                res.append(cand)
                seqs = [[x for x in s if x is not cand] for s in seqs]
                seqs = [s for s in seqs if s]
            return res

        def lin(c):
            return [c] + merge([lin(b) for b in c.bases] + [list(c.bases)])

        out = lin(cls)
        return out

    def find_method(self, cls, name):
        for c in self.mro(cls):
            if name in c.methods:
                return c.methods[name]
        return None

    def subclasses(self, cls):
        """cls and all transitive package subclasses."""
        out = [cls]
        changed = True
        while changed:
            changed = False
            for c in self.classes.values():
                if c not in out and any(b in out for b in c.bases):
                    out.append(c)
                    changed = True
        return out

    def family(self, cls):
        """All classes related to cls by inheritance (connected component)."""
        fam = {cls}
        changed = True
        while changed:
            changed = False
            for c in self.classes.values():
                if c in fam:
                    for b in c.bases:
                        if b not in fam:
                            fam.add(b)
                            changed = True
                elif any(b in fam for b in c.bases):
                    fam.add(c)
                    changed = True
        return fam

    def func(self, qual):
        f = self.functions.get(qual)
        if f is None and ":" in qual and "." in qual.split(":", 1)[1]:
            # a method that the class no longer defines itself but inherits (moved into a base class): the inherited one
            mod, rest = qual.split(":", 1)
            cq, name = rest.rsplit(".", 1)
            c = self.classes.get(mod + ":" + cq)
            if c is not None:
                f = self.find_method(c, name)
        if f is None:
            raise AnalysisError("anchor vanished: function %s" % qual)
        return f

    def cls(self, qual):
        c = self.classes.get(qual)
        if c is None:
            raise AnalysisError("anchor vanished: class %s" % qual)
        return c

    def enclosing_function(self, node):
        n = node
        while n in self.parent:
            n = self.parent[n]
            if isinstance(n, (ast.FunctionDef, ast.AsyncFunctionDef)):
                for f in self.functions.values():
                    if f.node is n:
                        return f
        return None

    def enclosing_stmt(self, node):
        n = node
        while n in self.parent and not isinstance(n, ast.stmt):
            n = self.parent[n]
        return n

    def files_digest(self):
        return {m.path.replace(self.root + os.sep, ""): m.digest for m in self.modules.values()}
