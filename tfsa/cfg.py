"""Statement-level control-flow graph, dominance, control dependence, path enumeration."""
import ast

from .loader import AnalysisError


class Node:
    __slots__ = ("id", "kind", "ast", "succ", "pred", "label")

    def __init__(self, nid, kind, astnode=None, label=""):
        self.id = nid
        self.kind = kind      # entry exit xexit stmt test iter handler withexit
        self.ast = astnode
        self.succ = []        # [(Node, edge label)]
        self.pred = []
        self.label = label

    def __repr__(self):
        t = ""
        if self.ast is not None:
            try:
                src = self.ast.test if self.kind == "test" and hasattr(self.ast, "test") else self.ast
                if self.kind == "iter":
                    t = "for %s in %s" % (ast.unparse(self.ast.target), ast.unparse(self.ast.iter))
                elif self.kind == "handler":
                    t = "except %s" % (ast.unparse(self.ast.type) if self.ast.type else "")
                elif self.kind == "with":
                    t = "with " + ", ".join(ast.unparse(i) for i in self.ast.items)
                else:
                    t = ast.unparse(src).split("\n")[0]
            except Exception:
                t = type(self.ast).__name__
        return "<%d %s %s L%s>" % (self.id, self.kind, t[:60], getattr(self.ast, "lineno", "-"))


SIMPLE = (ast.Assign, ast.AugAssign, ast.AnnAssign, ast.Expr, ast.Delete, ast.Pass, ast.Assert,
          ast.Import, ast.ImportFrom, ast.Global, ast.Nonlocal, ast.FunctionDef, ast.AsyncFunctionDef, ast.ClassDef)

CATCH_ALL = {"Exception", "BaseException"}


class CFG:
    def __init__(self, fnode):
        self.fnode = fnode
        self.nodes = []
        self.entry = self._new("entry")
        self.exit = self._new("exit")
        self.xexit = self._new("xexit")
        self.of = {}          # ast stmt -> Node (the node where the statement is "evaluated")
        self.loop_exit = {}
        frame = {"break": None, "continue": None, "exc": [self.xexit], "finally": []}
        last = self._body(fnode.body, [(self.entry, "next")], frame)
        for n, lab in last:
            self._edge(n, self.exit, lab)
        self._dom = None
        self._pdom = None

    # ------------------------------------------------------------------ construction
    def _new(self, kind, astnode=None):
        n = Node(len(self.nodes), kind, astnode)
        self.nodes.append(n)
        return n

    def _edge(self, a, b, label="next"):
        if (b, label) not in a.succ:
            a.succ.append((b, label))
            b.pred.append((a, label))

    def _connect(self, pend, node):
        for n, lab in pend:
            self._edge(n, node, lab)

    def _body(self, stmts, pend, frame):
        """Build nodes for a statement list; pend = dangling (node,label) edges entering. Returns dangling edges leaving."""
        for st in stmts:
            pend = self._stmt(st, pend, frame)
        return pend

    def _exc_edges(self, node, frame):
        """Statement may raise: edge to the innermost exception targets (only inside try bodies)."""
        if frame.get("in_try"):
            for h in frame["exc"]:
                self._edge(node, h, "exc")

    def _stmt(self, st, pend, frame):
        if isinstance(st, SIMPLE):
            n = self._new("stmt", st)
            self.of[st] = n
            self._connect(pend, n)
            self._exc_edges(n, frame)
            return [(n, "next")]
        if isinstance(st, ast.Return):
            n = self._new("stmt", st)
            self.of[st] = n
            self._connect(pend, n)
            self._exc_edges(n, frame)
            out = [(n, "return")]
            for fin in reversed(frame["finally"]):
                out = self._body(fin, out, dict(frame, **{"finally": [], "in_try": False}))
            for m, lab in out:
                self._edge(m, self.exit, lab)
            return []
        if isinstance(st, ast.Raise):
            n = self._new("stmt", st)
            self.of[st] = n
            self._connect(pend, n)
            for h in frame["exc"]:
                self._edge(n, h, "raise")
            return []
        if isinstance(st, ast.Break):
            n = self._new("stmt", st)
            self.of[st] = n
            self._connect(pend, n)
            if frame["break"] is None:
                raise AnalysisError("break outside loop")
            frame["break"].append((n, "break"))
            return []
        if isinstance(st, ast.Continue):
            n = self._new("stmt", st)
            self.of[st] = n
            self._connect(pend, n)
            self._edge(n, frame["continue"], "continue")
            return []
        if isinstance(st, ast.If):
            t = self._new("test", st)
            self.of[st] = t
            self._connect(pend, t)
            self._exc_edges(t, frame)
            const = isinstance(st.test, ast.Constant)
            out = []
            if not const or st.test.value:
                out += self._body(st.body, [(t, "true")], frame)
            if not const or not st.test.value:
                if st.orelse:
                    out += self._body(st.orelse, [(t, "false")], frame)
                else:
                    out.append((t, "false"))
            return out
        if isinstance(st, ast.While):
            t = self._new("test", st)
            self.of[st] = t
            self._connect(pend, t)
            self._exc_edges(t, frame)
            breaks = []
            f2 = dict(frame, **{"break": breaks, "continue": t})
            body_out = self._body(st.body, [(t, "true")], f2)
            self._connect(body_out, t)
            out = []
            const_true = isinstance(st.test, ast.Constant) and bool(st.test.value)
            if not const_true:
                if st.orelse:
                    out += self._body(st.orelse, [(t, "false")], frame)
                else:
                    out.append((t, "false"))
            out += breaks
            return out
        if isinstance(st, (ast.For, ast.AsyncFor)):
            t = self._new("iter", st)
            self.of[st] = t
            self._connect(pend, t)
            self._exc_edges(t, frame)
            breaks = []
            f2 = dict(frame, **{"break": breaks, "continue": t})
            body_out = self._body(st.body, [(t, "iter")], f2)
            self._connect(body_out, t)
            out = []
            if st.orelse:
                out += self._body(st.orelse, [(t, "done")], frame)
            else:
                out.append((t, "done"))
            out += breaks
            return out
        if isinstance(st, (ast.With, ast.AsyncWith)):
            w = self._new("with", st)
            self.of[st] = w
            self._connect(pend, w)
            self._exc_edges(w, frame)
            body_out = self._body(st.body, [(w, "next")], frame)
            x = self._new("withexit", st)
            self._connect(body_out, x)
            return [(x, "next")]
        if isinstance(st, ast.Try):
            handlers = []
            for h in st.handlers:
                hn = self._new("handler", h)
                self.of[h] = hn
                handlers.append(hn)
            catch_all = any(h.type is None or (isinstance(h.type, ast.Name) and h.type.id in CATCH_ALL) for h in st.handlers)
            outer_exc = frame["exc"]
            fin = st.finalbody
            # exception targets for the try body
            body_exc = list(handlers)
            if not catch_all or not handlers:
                if fin:
                    # exceptional copy of finally, then propagate outward
                    fx = self._new("stmt", ast.Pass())
                    fo = self._body(fin, [(fx, "next")], dict(frame, **{"in_try": frame.get("in_try")}))
                    for m, lab in fo:
                        for h in outer_exc:
                            self._edge(m, h, "exc")
                    body_exc.append(fx)
                else:
                    body_exc += outer_exc
            f_body = dict(frame, **{"exc": body_exc, "in_try": True,
                                    "finally": frame["finally"] + ([fin] if fin else [])})
            out = self._body(st.body, pend, f_body)
            if st.orelse:
                out = self._body(st.orelse, out, dict(frame, **{"finally": frame["finally"] + ([fin] if fin else [])}))
            # handlers run in the outer exception context
            f_h = dict(frame, **{"finally": frame["finally"] + ([fin] if fin else [])})
            if fin:
                fxh = self._new("stmt", ast.Pass())
                foh = self._body(fin, [(fxh, "next")], frame)
                for m, lab in foh:
                    for h in outer_exc:
                        self._edge(m, h, "exc")
                f_h = dict(f_h, **{"exc": [fxh]})
            for h, hn in zip(st.handlers, handlers):
                out += self._body(h.body, [(hn, "next")], f_h)
            if fin:
                out = self._body(fin, out, frame)
            return out
        if isinstance(st, ast.Match):
            raise AnalysisError("match statement not supported by the CFG builder")
        raise AnalysisError("unsupported statement kind %s" % type(st).__name__)

    # ------------------------------------------------------------------ queries
    def reachable(self, start=None, avoiding=()):
        start = start or self.entry
        avoiding = set(avoiding)
        seen = set()
        work = [start]
        while work:
            n = work.pop()
            if n in seen or (n in avoiding and n is not start):
                continue
            seen.add(n)
            for s, _ in n.succ:
                work.append(s)
        return seen

    def live_nodes(self):
        return self.reachable(self.entry)

    def must_pass(self, a, b, through):
        """Every path from a to b passes through a node of `through` (vacuously true if b unreachable)."""
        through = set(through)
        if a in through or b in through:
            return True
        return b not in self.reachable(a, avoiding=through)

    def _dominators(self, root, succ_of, nodes):
        dom = {n: set(nodes) for n in nodes}
        dom[root] = {root}
        preds = {n: [] for n in nodes}
        for n in nodes:
            for s in succ_of(n):
                if s in preds:
                    preds[s].append(n)
        changed = True
        while changed:
            changed = False
            for n in nodes:
                if n is root:
                    continue
                ps = [dom[p] for p in preds[n]]
                new = set.intersection(*ps) if ps else set()
                new = new | {n}
                if new != dom[n]:
                    dom[n] = new
                    changed = True
        return dom

    def dominators(self):
        if self._dom is None:
            nodes = list(self.live_nodes())
            self._dom = self._dominators(self.entry, lambda n: [s for s, _ in n.succ], nodes)
        return self._dom

    def dominates(self, a, b):
        d = self.dominators()
        return b in d and a in d[b]

    def postdominators(self):
        """Post-dominators w.r.t. a virtual END joining exit and xexit."""
        if self._pdom is None:
            nodes = list(self.live_nodes())
            end = Node(-1, "end")
            allnodes = nodes + [end]

            def rsucc(n):
                if n is end:
                    return [x for x in (self.exit, self.xexit) if x in nodes]
                return [p for p, _ in n.pred if p in nodes]
            self._pdom = self._dominators(end, rsucc, allnodes)
            self._end = end
        return self._pdom

    def postdominates(self, a, b):
        pd = self.postdominators()
        return b in pd and a in pd[b]

    def _normal_pdom(self):
        """Post-dominators on the sub-graph of nodes that can reach the normal exit (raising branches pruned)."""
        if getattr(self, "_npdom", None) is None:
            live = self.live_nodes()
            can = set()
            work = [self.exit] if self.exit in live else []
            while work:
                m = work.pop()
                if m in can:
                    continue
                can.add(m)
                for p, _ in m.pred:
                    if p in live:
                        work.append(p)
            nodes = list(can)

            def rsucc(m):
                return [p for p, _ in m.pred if p in can]
            self._npdom = (self._dominators(self.exit, rsucc, nodes) if nodes else {}, can)
        return self._npdom

    def control_deps(self, n, normal_only=False):
        """Set of (branch node, edge label) the node n is control dependent on (transitively closed).

        normal_only: branches that only lead to a raise are not guards (early-exit checks are ignored)."""
        out = set()
        work = [n]
        seen = set()
        while work:
            m = work.pop()
            if m in seen:
                continue
            seen.add(m)
            for (b, lab) in self.direct_control_deps(m, normal_only):
                if (b, lab) not in out:
                    out.add((b, lab))
                    work.append(b)
        return out

    def direct_control_deps(self, n, normal_only=False):
        out = set()
        if normal_only:
            pd, can = self._normal_pdom()
            if n not in can:
                return self.direct_control_deps(n, False)
            for b in can:
                succ = [(s, lab) for s, lab in b.succ if s in can]
                if len(succ) < 2:
                    continue
                for s, lab in succ:
                    if (n is s or n in pd.get(s, ())) and not (n in pd[b] and n is not b):
                        out.add((b, lab))
            return out
        pd = self.postdominators()
        for b in self.live_nodes():
            if len(b.succ) < 2:
                continue
            for s, lab in b.succ:
                if (n is s or n in pd.get(s, ())) and not (n in pd[b] and n is not b):
                    out.add((b, lab))
        return out

    def paths(self, start=None, goals=None, bound=4096, loop_visits=2):
        """Enumerate paths (lists of (node, label-taken)) from start to any goal node.

        Each node may be visited at most `loop_visits` times (loops taken 0 and 1 times).
        Returns (paths, complete?).
        """
        start = start or self.entry
        goals = set(goals) if goals else {self.exit, self.xexit}
        out = []
        complete = True
        stack = [(start, [], {})]
        while stack:
            n, path, cnt = stack.pop()
            if n in goals:
                out.append(path + [(n, None)])
                if len(out) >= bound:
                    complete = False
                    break
                continue
            c = cnt.get(n, 0)
            if c >= loop_visits:
                continue
            cnt2 = dict(cnt)
            cnt2[n] = c + 1
            for s, lab in n.succ:
                stack.append((s, path + [(n, lab)], cnt2))
        return out, complete

    def stmts_in_order(self):
        return [n for n in self.nodes if n in self.live_nodes()]
