"""Reaching definitions for local names on the statement CFG."""
import ast

from .cfg import CFG


class Def:
    __slots__ = ("name", "node", "value", "kind", "stmt")

    def __init__(self, name, node, value, kind, stmt=None):
        self.name = name
        self.node = node      # CFG node (entry node for parameters)
        self.value = value    # value expression or None
        self.kind = kind      # param | assign | aug | iter | with | except | unpack | walrus | del
        self.stmt = stmt

    def __repr__(self):
        return "<Def %s %s L%s>" % (self.name, self.kind, getattr(self.stmt, "lineno", "-"))


def _targets(t, value, kind, out, stmt):
    if isinstance(t, ast.Name):
        out.append((t.id, value, kind, stmt))
    elif isinstance(t, (ast.Tuple, ast.List)):
        if isinstance(value, (ast.Tuple, ast.List)) and len(value.elts) == len(t.elts) and kind == "assign":
            for tt, vv in zip(t.elts, value.elts):
                _targets(tt, vv, kind, out, stmt)
        else:
            for i, tt in enumerate(t.elts):
                _targets(tt.value if isinstance(tt, ast.Starred) else tt, ("unpack", value, i, len(t.elts)), "unpack", out, stmt)


def defs_of_node(n):
    """[(name, value, kind, stmt)] defined by CFG node n."""
    out = []
    a = n.ast
    if a is None:
        return out
    if n.kind == "iter":
        _targets(a.target, a.iter, "iter", out, a)
        return out
    if n.kind == "with":
        for it in a.items:
            if it.optional_vars is not None:
                _targets(it.optional_vars, it.context_expr, "with", out, a)
        return out
    if n.kind == "handler":
        if a.name:
            out.append((a.name, a.type, "except", a))
        return out
    if n.kind == "test":
        src = a.test
    elif n.kind == "withexit":
        return out
    else:
        src = a
    if isinstance(a, ast.Assign) and n.kind == "stmt":
        for t in a.targets:
            _targets(t, a.value, "assign", out, a)
    elif isinstance(a, ast.AnnAssign) and n.kind == "stmt" and a.value is not None:
        _targets(a.target, a.value, "assign", out, a)
    elif isinstance(a, ast.AugAssign) and n.kind == "stmt":
        if isinstance(a.target, ast.Name):
            out.append((a.target.id, a, "aug", a))
    elif isinstance(a, ast.Delete) and n.kind == "stmt":
        for t in a.targets:
            if isinstance(t, ast.Name):
                out.append((t.id, None, "del", a))
    elif isinstance(a, (ast.FunctionDef, ast.ClassDef)) and n.kind == "stmt":
        out.append((a.name, None, "def", a))
        return out
    elif isinstance(a, (ast.Import, ast.ImportFrom)) and n.kind == "stmt":
        for al in a.names:
            out.append((al.asname or al.name.split(".")[0], None, "import", a))
        return out
    if isinstance(src, ast.AST):
        for x in ast.walk(src):
            if isinstance(x, ast.NamedExpr):
                out.append((x.target.id, x.value, "walrus", a))
    return out


class ReachDefs:
    def __init__(self, fn, cfg=None):
        self.fn = fn
        self.cfg = cfg or CFG(fn.node)
        self.defs = []
        self.by_node = {}
        g = self.cfg
        for p in fn.all_params():
            d = Def(p, g.entry, None, "param")
            self.defs.append(d)
            self.by_node.setdefault(g.entry, []).append(d)
        for n in g.nodes:
            for name, value, kind, stmt in defs_of_node(n):
                d = Def(name, n, value, kind, stmt)
                self.defs.append(d)
                self.by_node.setdefault(n, []).append(d)
        self._in = None

    def _solve(self):
        g = self.cfg
        live = g.live_nodes()
        IN = {n: set() for n in live}
        OUT = {n: set() for n in live}
        work = list(live)
        while work:
            n = work.pop()
            new_in = set()
            for p, _ in n.pred:
                if p in OUT:
                    new_in |= OUT[p]
            IN[n] = new_in
            gen = self.by_node.get(n, [])
            killed = {d.name for d in gen if d.kind != "aug"}   # x += v is a weak update
            out = {d for d in new_in if d.name not in killed} | set(gen)
            if out != OUT[n]:
                OUT[n] = out
                for s, _ in n.succ:
                    if s in live:
                        work.append(s)
        self._in = IN
        self._out = OUT

    def reaching(self, name, node):
        """Definitions of `name` reaching the entry of CFG node `node`."""
        if self._in is None:
            self._solve()
        return {d for d in self._in.get(node, ()) if d.name == name}

    def reaching_after(self, name, node):
        if self._in is None:
            self._solve()
        return {d for d in self._out.get(node, ()) if d.name == name}
