"""Value-origin terms: a flow-insensitive (attribute reads: locally flow-sensitive),
inter-procedural backward data-dependence slice, kept as term trees so that rules can
recognise *how* a value was derived (basename(abspath(p)), relpath(child, root), ...).

Term := tuple
  ('const', value)
  ('param', funcqual, name)                 parameter of a stop function / function without package callers
  ('ext', dotted, args, kwargs)             external call; args = tuple[frozenset[Term]], kwargs = tuple[(name, frozenset)]
  ('meth', name, recv, args)                method call on a builtin-kind / unknown receiver
  ('op', opname, operands)                  operands = tuple[frozenset[Term]]
  ('sub', base, index)                      subscript read
  ('attr', base, name)                      attribute read on a non-package value
  ('dict', items)  ('list', elems) ('fstr', parts)
  ('elem', src)                             element taken from an iterable
  ('added', src) ('kelem', key, src)        value added to / stored under a key of a container
  ('inloop', value, iterable)               value produced inside a loop over iterable (order carrier)
  ('inst', classqual, bound)                package class instance, bound = tuple[(param, frozenset)]
  ('selfattr', classqual, name)             attribute without any store
  ('global', module, name)
  ('lambda', source) ('unknown', why) ('rec', what)
"""
import ast

from .cfg import CFG
from .loader import own_nodes
from .reach import ReachDefs

MUTATORS = {"append", "extend", "add", "update", "insert", "setdefault", "appendleft", "__ior__"}
OUTPARAM_METHODS = {"readinto": 0, "readinto1": 0, "recv_into": 0}
CONSUMERS = {"builtins.list", "builtins.tuple", "builtins.set", "builtins.frozenset", "builtins.sorted", "builtins.bytes", "builtins.bytearray", "builtins.sum",
             "builtins.max", "builtins.min", "builtins.any", "builtins.all", "itertools.chain", "itertools.chain.from_iterable"}
MAXDEPTH = 30
MAXSET = 60


def fs(*terms):
    return frozenset(terms)


class Flow:
    def __init__(self, prog, res, stop_funcs=(), hook=None, opaque_funcs=()):
        self.prog = prog
        self.res = res
        self.opaque = set(opaque_funcs)  # package functions kept as ('pkgcall', qual, args) instead of being expanded
        self.stop = set(stop_funcs)      # Func objects whose parameters are sources
        self.hook = hook                  # hook(fn, name, what, payload, flow) -> frozenset | None
        self.expr_hook = None             # expr_hook(fn, subscript expr, flow, env, depth) -> frozenset | None
        self.caller_filter = None         # caller_filter(Func) -> bool: which calling contexts supply a parameter's value when none is bound
        self.maxdepth = MAXDEPTH
        self._cfg = {}
        self._rd = {}
        self._active = set()
        self._mutdefs = {}
        self._attrstores = {}
        self.depth_hits = 0
        self.rec_hits = 0
        self._synth = {}
        self._memo = {}
        self._fstack = []
        self._keep = []

    # ------------------------------------------------------------------ helpers
    def cfg(self, fn):
        if fn not in self._cfg:
            self._cfg[fn] = CFG(fn.node)
        return self._cfg[fn]

    def stmt_of(self, node):
        return self.prog.enclosing_stmt(node)

    def cfg_node(self, fn, node):
        """CFG node of the statement containing `node` (comprehension bodies map to their statement)."""
        g = self.cfg(fn)
        n = node
        while n is not None:
            if n in g.of:
                return g.of[n]
            n = self.prog.parent.get(n)
        return None

    def local_mutations(self, fn):
        """root -> [(value expr, site, key path exprs, leaf)] for container mutations.

        root is a local name or ('self', attr); key path are the subscript keys between the root and the mutated
        container (plus the stored key for subscript stores); leaf is 'store' or 'elem'."""
        if fn in self._mutdefs:
            return self._mutdefs[fn]
        out = {}

        def root_path(e):
            keys = []
            while isinstance(e, ast.Subscript):
                keys.append(e.slice)
                e = e.value
            keys.reverse()
            if isinstance(e, ast.Name):
                return e.id, keys
            if isinstance(e, ast.Attribute) and isinstance(e.value, ast.Name) and e.value.id == fn.self_name:
                return ("self", e.attr), keys
            return None, keys

        for n in own_nodes(fn.node):
            if isinstance(n, ast.Call) and isinstance(n.func, ast.Attribute):
                if n.func.attr in MUTATORS:
                    k, keys = root_path(n.func.value)
                    if k is not None:
                        if n.func.attr == "setdefault" and n.args:
                            if len(n.args) > 1:
                                out.setdefault(k, []).append((n.args[1], n, keys + [n.args[0]], "store"))
                        else:
                            for a in n.args:
                                out.setdefault(k, []).append((a, n, keys, "elem"))
                            for kw in n.keywords:
                                out.setdefault(k, []).append((kw.value, n, keys, "elem"))
                if n.func.attr in OUTPARAM_METHODS and n.args:
                    k, keys = root_path(n.args[OUTPARAM_METHODS[n.func.attr]])
                    if k is not None:
                        out.setdefault(k, []).append((n.func.value, n, keys, "elem"))
            elif isinstance(n, ast.Assign):
                for t in n.targets:
                    if isinstance(t, ast.Subscript):
                        k, keys = root_path(t)
                        if k is not None:
                            out.setdefault(k, []).append((n.value, n, keys, "store"))
            elif isinstance(n, ast.AugAssign):
                if isinstance(n.target, (ast.Subscript, ast.Attribute)):
                    k, keys = root_path(n.target)
                    if k is not None:
                        out.setdefault(k, []).append((n.value, n, keys, "elem"))
        self._mutdefs[fn] = out
        return out

    def mut_term(self, val, site, keys, leaf, f, env, depth):
        """Term of one mutation record (see local_mutations)."""
        inner = self.term(val, f, env, depth + 1)
        # ordered containers filled inside a loop inherit the loop's iteration order
        n = self.prog.parent.get(site)
        while n is not None and n is not f.node:
            if isinstance(n, ast.For):
                inner = fs(("inloop", inner, self.term(n.iter, f, env, depth + 1)))
                break
            n = self.prog.parent.get(n)
        keys = list(keys)
        if leaf == "store" and keys:
            last = keys.pop()
            if isinstance(last, ast.Slice):
                t = ("added", inner)
            else:
                t = ("kelem", self.term(last, f, env, depth + 1), inner)
        else:
            t = ("added", inner)
        for k in reversed(keys):
            kt = fs(("const", "slice")) if isinstance(k, ast.Slice) else self.term(k, f, env, depth + 1)
            t = ("kelem", kt, fs(t))
        return t

    def attr_stores(self, cls, attr):
        """[(value expr | None, Func, stmt node, kind)] for stores to attribute `attr` on instances of cls family."""
        key = (cls, attr)
        if key in self._attrstores:
            return self._attrstores[key]
        out = []
        related = set(self.prog.mro(cls)) | set(self.prog.subclasses(cls))
        for c in related:
            for m in c.methods.values():
                sn = m.self_name
                if not sn:
                    continue
                for n in own_nodes(m.node):
                    if isinstance(n, (ast.Assign, ast.AnnAssign)):
                        targets = n.targets if isinstance(n, ast.Assign) else [n.target]
                        if n.value is None:
                            continue
                        for t in targets:
                            for tgt, val, idx in self._flat(t, n.value):
                                if isinstance(tgt, ast.Attribute) and isinstance(tgt.value, ast.Name) \
                                        and tgt.value.id == sn and tgt.attr == attr:
                                    out.append((val, m, n, idx))
                    elif isinstance(n, ast.AugAssign):
                        t = n.target
                        if isinstance(t, ast.Attribute) and isinstance(t.value, ast.Name) and t.value.id == sn and t.attr == attr:
                            out.append((n.value, m, n, "aug"))
                    elif isinstance(n, ast.With):
                        for it in n.items:
                            t = it.optional_vars
                            if isinstance(t, ast.Attribute) and isinstance(t.value, ast.Name) and t.value.id == sn and t.attr == attr:
                                out.append((it.context_expr, m, n, None))
                    elif isinstance(n, (ast.For,)):
                        for t in ast.walk(n.target):
                            if isinstance(t, ast.Attribute) and isinstance(t.value, ast.Name) and t.value.id == sn and t.attr == attr:
                                out.append((n.iter, m, n, "iter"))
                # container mutations through self.attr
                for (val, site, keys, leaf) in self.local_mutations(m).get(("self", attr), []):
                    out.append((val, m, site, ("mut", tuple(keys), leaf)))
            if attr in c.class_assigns:
                for v in c.class_assigns[attr]:
                    out.append((v, None, c.node, "class"))
        self._attrstores[key] = out
        return out

    @staticmethod
    def _flat(target, value):
        if isinstance(target, (ast.Tuple, ast.List)):
            if isinstance(value, (ast.Tuple, ast.List)) and len(value.elts) == len(target.elts):
                for t, v in zip(target.elts, value.elts):
                    yield from Flow._flat(t, v)
            else:
                for i, t in enumerate(target.elts):
                    yield t, value, i
        else:
            yield target, value, None

    # ------------------------------------------------------------------ main
    def term(self, expr, fn, env=None, depth=0, mod=None):
        env = env or {}
        if depth > self.maxdepth:
            self.depth_hits += 1
            return fs(("unknown", "depth"))
        try:
            ekey = frozenset(env.items()) if env else None
        except TypeError:
            ekey = tuple(sorted((k, id(v)) for k, v in env.items()))
        key = (id(expr), fn.qual if fn else None, ekey)
        hit = self._memo.get(key)
        if hit is not None:
            return hit
        if key in self._active:
            self.rec_hits += 1
            return fs(("rec", ast.unparse(expr)[:40] if isinstance(expr, ast.AST) else "?"))
        self._active.add(key)
        d0, r0 = self.depth_hits, self.rec_hits
        try:
            out = self._term(expr, fn, env, depth, mod or (fn.module if fn else None))
        finally:
            self._active.discard(key)
        if len(out) > MAXSET:
            out = frozenset(list(out)[:MAXSET]) | fs(("unknown", "wide"))
        if d0 == self.depth_hits and r0 == self.rec_hits:
            self._memo[key] = out
            self._keep.append(expr)
        return out

    def _pick(self, base, key, idx):
        """Value of base[key] for a constant string key: dictionary literals and keyed mutations are field-sensitive."""
        picked = set()
        rest = set()
        for b in base:
            if b[0] == "dict":
                for kt, vt in b[1]:
                    if any(k == ("const", key) for k in kt) or any(k[0] != "const" for k in kt):
                        picked |= vt
            elif b[0] == "kelem":
                if any(k == ("const", key) for k in b[1]) or any(k[0] != "const" for k in b[1]):
                    picked |= b[2]
            elif b[0] == "inloop":
                sub = self._pick(b[1], key, idx)
                picked |= sub
            elif b[0] == "ext" and b[1] in ("builtins.dict", "builtins.sorted", "builtins.list", "builtins.tuple",
                                            "collections.OrderedDict", "copy.copy", "copy.deepcopy") and b[2]:
                picked |= self._pick(b[2][0], key, idx)     # content-preserving copy
            elif b[0] == "meth" and b[1] in ("items", "copy") and b[2]:
                picked |= self._pick(b[2], key, idx)
            else:
                rest.add(b)
        if rest:
            picked.add(("sub", frozenset(rest), idx))
        return frozenset(picked)

    def _many(self, exprs, fn, env, depth, mod):
        return tuple(self.term(e, fn, env, depth, mod) for e in exprs)

    def _term(self, e, fn, env, depth, mod):
        T = lambda x: self.term(x, fn, env, depth, mod)  # noqa: E731
        if isinstance(e, ast.Constant):
            return fs(("const", e.value))
        if isinstance(e, ast.JoinedStr):
            parts = []
            for v in e.values:
                if isinstance(v, ast.FormattedValue):
                    parts.append(T(v.value))
                else:
                    parts.append(T(v))
            return fs(("fstr", tuple(parts)))
        if isinstance(e, (ast.List, ast.Tuple, ast.Set)):
            return fs(("list", tuple(T(x) for x in e.elts)))
        if isinstance(e, ast.Dict):
            return fs(("dict", tuple((T(k) if k is not None else fs(("unknown", "**")), T(v)) for k, v in zip(e.keys, e.values))))
        if isinstance(e, (ast.ListComp, ast.SetComp, ast.GeneratorExp)):
            return fs(("inloop", fs(("list", (T(e.elt),))), T(e.generators[0].iter)))
        if isinstance(e, ast.DictComp):
            # a key-for-key copy ({k: X[k] for k in sorted(X)}, {k: v for k, v in sorted(X.items())}) has the contents of X,
            # field by field
            try:
                from .pointsto import sorted_copy_info
                info = sorted_copy_info(self.res, e, fn, mod)
            except Exception:
                info = None
            if info is not None and not info[1]:
                return fs(("ext", "builtins.dict", (T(info[0]),), ()))
            # the order of the entries is the order of the iteration: keep the iterable as the order carrier
            return fs(("inloop", fs(("dict", ((T(e.key), T(e.value)),))), T(e.generators[0].iter)))
        if isinstance(e, ast.Starred):
            return fs(("elem", T(e.value)))
        if isinstance(e, ast.IfExp):
            return T(e.body) | T(e.orelse)
        if isinstance(e, ast.NamedExpr):
            return T(e.value)
        if isinstance(e, ast.BoolOp):
            return fs(("op", type(e.op).__name__, tuple(T(v) for v in e.values)))
        if isinstance(e, ast.BinOp):
            return fs(("op", type(e.op).__name__, (T(e.left), T(e.right))))
        if isinstance(e, ast.UnaryOp):
            return fs(("op", type(e.op).__name__, (T(e.operand),)))
        if isinstance(e, ast.Compare):
            ops = "/".join(type(o).__name__ for o in e.ops)
            return fs(("op", "cmp:" + ops, tuple(T(x) for x in [e.left] + list(e.comparators))))
        if isinstance(e, ast.Subscript):
            if self.expr_hook is not None:
                r = self.expr_hook(fn, e, self, env, depth)
                if r is not None:
                    return r
            base = T(e.value)
            idx = T(e.slice)
            # field-sensitive read for a constant string key
            ck = [t[1] for t in idx if t[0] == "const"]
            if len(ck) == 1 and len(idx) == 1 and isinstance(ck[0], str):
                return self._pick(base, ck[0], idx)
            return fs(("sub", base, idx))
        if isinstance(e, ast.Name):
            return self._name(e, fn, env, depth, mod)
        if isinstance(e, ast.Attribute):
            return self._attribute(e, fn, env, depth, mod)
        if isinstance(e, ast.Call):
            return self._call(e, fn, env, depth, mod)
        if isinstance(e, ast.Lambda):
            return fs(("lambda", ast.unparse(e)))
        if isinstance(e, (ast.Yield, ast.YieldFrom, ast.Await)):
            return fs(("unknown", "yield"))
        if isinstance(e, ast.Slice):
            parts = tuple(self.term(x, fn, env, depth + 1, mod) if x is not None else fs(("const", None)) for x in (e.lower, e.upper, e.step))
            return fs(("op", "slice", parts))
        return fs(("unknown", type(e).__name__))

    # .................................................................. names
    def _comprehension_binding(self, e, fn, env, depth, mod):
        """A name bound by an enclosing comprehension: scoped to that comprehension only."""
        n = self.prog.parent.get(e)
        child = e
        while n is not None and not isinstance(n, (ast.FunctionDef, ast.AsyncFunctionDef, ast.Module, ast.Lambda)):
            if isinstance(n, (ast.ListComp, ast.SetComp, ast.GeneratorExp, ast.DictComp)):
                for i, gen in enumerate(n.generators):
                    names = [t for t in ast.walk(gen.target) if isinstance(t, ast.Name) and t.id == e.id]
                    if not names:
                        continue
                    # the use must not be the iterable of this very generator (or an earlier one)
                    if any(child is g2.iter or child in list(ast.walk(g2.iter)) for g2 in n.generators[: i + 1]):
                        continue
                    it = self.term(gen.iter, fn, env, depth + 1, mod)
                    if isinstance(gen.target, ast.Name):
                        return self._iter_elems(it, env, depth)
                    idx = None
                    if isinstance(gen.target, (ast.Tuple, ast.List)):
                        for j, t in enumerate(gen.target.elts):
                            if isinstance(t, ast.Name) and t.id == e.id:
                                idx = j
                    zp = self._zip_position(gen.iter, idx, fn, env, depth)
                    if zp is None:
                        zp = self._generator_position(gen.iter, idx, fn, env, depth)
                    if zp is not None:
                        return zp
                    return frozenset(self._iter_unpack(it, idx, env, depth))
            child = n
            n = self.prog.parent.get(n)
        return None

    def _name(self, e, fn, env, depth, mod):
        name = e.id
        r = self._comprehension_binding(e, fn, env, depth, mod)
        if r is not None:
            return r
        f = fn
        while f is not None:
            b = self.res.bindings(f)
            if name in b:
                return self._bindings(name, b[name], f, e, env, depth)
            f = getattr(f, "outer_fn", None)
        # module level
        if mod is not None:
            if name in mod.assigns:
                out = set()
                for v in mod.assigns[name]:
                    out |= self.term(v, None, {}, depth + 1, mod)
                return frozenset(out)
            if name in mod.functions or name in mod.classes or name in mod.imports:
                return fs(("global", mod.name, name))
        return fs(("global", "builtins", name))

    def _reaching_filter(self, name, blist, f, use):
        """Keep only the bindings whose definitions reach the use (local flow-sensitivity)."""
        if use is None or f is None:
            return blist
        node = self.cfg_node(f, use)
        if node is None:
            return blist
        rd = self._rd.get(f)
        if rd is None:
            rd = self._rd[f] = ReachDefs(f, self.cfg(f))
        defs = rd.reaching(name, node)
        if not defs:
            return blist
        # a use inside a loop/with header that defines the name itself (for x in f(x)) is fine: reaching = entry state
        keep = []
        for what, payload in blist:
            ok = False
            for d in defs:
                if what == "param":
                    ok = d.kind == "param"
                elif what in ("value", "with", "iter"):
                    ok = d.value is payload
                elif what == "unpack":
                    ok = isinstance(d.value, tuple) and d.value[1] is payload[0]
                elif what == "iterunpack":
                    ok = isinstance(d.value, tuple) and d.value[1] is payload[0]
                elif what == "aug":
                    ok = d.value is payload
                else:
                    ok = True
                if ok:
                    break
            if ok:
                keep.append((what, payload))
        return keep or blist

    def _bindings(self, name, blist, f, use, env, depth):
        out = set()
        blist = self._reaching_filter(name, blist, f, use)
        for what, payload in blist:
            if self.hook is not None:
                r = self.hook(f, name, what, payload, self, env, depth)
                if r is not None:
                    out |= r
                    continue
            if what == "param":
                out |= self._param(f, name, env, depth)
            elif what in ("value", "with"):
                tv = self.term(payload, f, env, depth + 1)
                if what == "value" and isinstance(payload, ast.Name):
                    # shape refinement by use: a sibling `a, b = V` takes the tuples of that arity, `x = V` the rest
                    ar = self._sibling_unpack_arities(f, payload.id)
                    if ar:
                        rest = frozenset(t for t in tv if not (t[0] == "list" and len(t[1]) in ar))
                        if rest:
                            tv = rest
                out |= tv
            elif what == "iter":
                elems = self._iter_elems(self.term(payload, f, env, depth + 1), env, depth)
                # shape refinement: sibling loops over the same iterable that unpack n-tuples take those; this one the rest
                ar = self._sibling_loop_arities(f, payload)
                if ar:
                    rest = frozenset(t for t in elems if not (t[0] == "list" and len(t[1]) in ar))
                    if rest:
                        elems = rest
                out |= elems
            elif what == "iterunpack":
                it, idx = payload
                zp = self._zip_position(it, idx, f, env, depth)
                if zp is None:
                    zp = self._generator_position(it, idx, f, env, depth)
                if zp is not None:
                    out |= zp
                    continue
                out |= self._iter_unpack(self.term(it, f, env, depth + 1), idx, env, depth)
            elif what == "unpack":
                value, idx, n = payload
                out |= self._unpack(value, idx, n, f, env, depth)
            elif what == "aug":
                out.add(("op", "aug", (self.term(payload.value, f, env, depth + 1),)))
            elif what == "def":
                out.add(("global", f.module.name, name))
            elif what == "except":
                out.add(("unknown", "exception"))
            elif what == "import":
                out.add(("global", f.module.name, name))
        for (val, site, keys, leaf) in self.local_mutations(f).get(name, []):
            out.add(self.mut_term(val, site, keys, leaf, f, env, depth))
        if use is not None and f is not None and self._sorted_in_place(name, f, use):
            # `name.sort()` with the default ordering, after the last change to the list and before this read
            return fs(("ext", "builtins.sorted", (frozenset(out),), ()))
        return frozenset(out)

    def _sorted_in_place(self, name, f, use):
        """`name.sort()` (default ordering) stands between every change to the local list and this read: the sort is a
        statement outside any loop, each statement that changes the list lies inside an earlier statement of the sort's own
        block, nothing changes the list later, and the read comes after the sort."""
        MUT = ("append", "extend", "insert", "reverse", "pop", "remove", "clear", "sort", "__setitem__")
        cache = self.__dict__.setdefault("_sorted_names", {})
        names = cache.get(f)
        if names is None:
            names = cache[f] = {n.value.func.value.id for n in ast.walk(f.node) if isinstance(n, ast.Expr) and isinstance(n.value, ast.Call) and isinstance(n.value.func, ast.Attribute)
                                and n.value.func.attr == "sort" and isinstance(n.value.func.value, ast.Name)}
        if name not in names:
            return False
        parent = {}
        for n in ast.walk(f.node):
            for c in ast.iter_child_nodes(n):
                parent[c] = n
        sorts = [n for n in ast.walk(f.node) if isinstance(n, ast.Expr) and isinstance(n.value, ast.Call) and isinstance(n.value.func, ast.Attribute) and n.value.func.attr == "sort"
                 and isinstance(n.value.func.value, ast.Name) and n.value.func.value.id == name and not n.value.args and not n.value.keywords]
        if len(sorts) != 1:
            return False
        srt = sorts[0]
        p = parent.get(srt)
        while p is not None and p is not f.node:
            if isinstance(p, (ast.For, ast.While, ast.AsyncFor, ast.FunctionDef, ast.AsyncFunctionDef, ast.Lambda)):
                return False
            p = parent.get(p)
        holder = parent.get(srt)
        block = next((getattr(holder, fl) for fl in ("body", "orelse", "finalbody") if isinstance(getattr(holder, fl, None), list) and srt in getattr(holder, fl)), None)
        if block is None:
            return False
        at = block.index(srt)
        before = {id(x) for st in block[:at] for x in ast.walk(st)}
        changes = []
        for n in ast.walk(f.node):
            if isinstance(n, ast.Call) and isinstance(n.func, ast.Attribute) and isinstance(n.func.value, ast.Name) and n.func.value.id == name and n.func.attr in MUT and n is not srt.value:
                changes.append(n)
            elif isinstance(n, ast.Subscript) and isinstance(n.ctx, (ast.Store, ast.Del)) and isinstance(n.value, ast.Name) and n.value.id == name:
                changes.append(n)
            elif isinstance(n, ast.AugAssign) and isinstance(n.target, ast.Name) and n.target.id == name:
                changes.append(n)
            elif isinstance(n, ast.Name) and n.id == name and isinstance(n.ctx, (ast.Store, ast.Del)):
                # (re)binding: must come before the sort as well - but not inside the sort's block statements' siblings after it
                if getattr(n, "lineno", 0) > srt.lineno:
                    return False
        if any(id(c) not in before for c in changes):
            return False
        if id(use) in before or any(use is x for x in ast.walk(srt)):
            return False
        return getattr(use, "lineno", 0) > srt.lineno

    def _iter_unpack(self, itt, idx, env, depth):
        """What the idx-th name of a tuple target receives when iterating over a value with terms itt."""
        out = set()
        elems = self._iter_elems(itt, env, depth) if any(t[0] in ("inst", "ext") for t in itt) else frozenset()
        tuples = [t for t in elems if t[0] == "list" and idx is not None and len(t[1]) > idx]
        if not tuples and idx is not None:
            # a list that was filled with tuple displays / namedtuples (x.append((a, b)), [..] + [(a, b)]): its elements
            tuples = self._tuple_elements(itt, idx)
        if tuples:
            for t in tuples:
                out |= t[1][idx]
        else:
            out.add(("elem", fs(("sub", itt, fs(("const", idx))))))
        return out

    def _zip_position(self, it, idx, f, env, depth):
        """for a, b in zip(x, y) / for i, a in enumerate(x): the idx-th target takes the elements of that argument only.
        for a, b in ((1, x), (2, y)) - a literal table, directly or through a local bound once: the idx-th column."""
        table = it
        if isinstance(table, ast.Name) and f is not None and idx is not None:
            bl = self.res.bindings(f).get(table.id, [])
            if len(bl) == 1 and bl[0][0] == "value":
                table = bl[0][1]
        if isinstance(table, (ast.Tuple, ast.List)) and idx is not None and table.elts \
                and all(isinstance(r, (ast.Tuple, ast.List)) and len(r.elts) > idx and not any(isinstance(y, ast.Starred) for y in r.elts) for r in table.elts):
            out = set()
            for r in table.elts:
                out |= self.term(r.elts[idx], f, env, depth + 1)
            return frozenset(out)
        if not (isinstance(it, ast.Call) and isinstance(it.func, ast.Name) and idx is not None and not it.keywords
                and not any(isinstance(a, ast.Starred) for a in it.args)):
            return None
        if ("ext", "builtins." + it.func.id) not in {k[:2] for k in self.res.kinds(it.func, f)}:
            return None
        if it.func.id == "zip" and idx < len(it.args):
            return self._iter_elems(self.term(it.args[idx], f, env, depth + 1), env, depth)
        if it.func.id == "enumerate" and len(it.args) >= 1:
            if idx == 0:
                return fs(("ext", "builtins.int", (), ()))
            if idx == 1:
                return self._iter_elems(self.term(it.args[0], f, env, depth + 1), env, depth)
        return None

    def _nt_fields_of_class(self, c):
        if not any(ast.unparse(b).split(".")[-1] == "NamedTuple" for b in c.node.bases):
            return None
        return [st.target.id for st in c.node.body if isinstance(st, ast.AnnAssign) and isinstance(st.target, ast.Name)]

    def _field_of_unknown_record(self, base, attr):
        """record.field where the resolver does not know the record's class (a loop variable over a generator, say): when exactly
        one NamedTuple of the package has a field of that name and everything the base can be is a tuple with that position,
        the field is that position."""
        cands = []
        for c in self.prog.classes.values():
            ntf = self._nt_fields_of_class(c)
            if ntf and attr in ntf:
                cands.append(ntf.index(attr))
        if len(cands) != 1:
            return None
        recs = self._records(base, cands[0])
        if not recs:
            return None
        out = set()
        for r_ in recs:
            out |= r_[1][cands[0]]
        return frozenset(out)

    def _records(self, terms, idx):
        """The tuple terms a record-valued expression can be (through element / loop wrappers), provided every alternative is
        one with more than idx positions; [] otherwise."""
        found, other = [], False
        stack = list(terms)
        seen = 0
        while stack and seen < 400:
            t = stack.pop()
            seen += 1
            k = t[0]
            if k == "list":
                if len(t[1]) > idx:
                    found.append(t)
                else:
                    other = True
            elif k in ("elem", "added", "inloop", "sub") and len(t) > 1 and isinstance(t[1], frozenset):
                # an element of a list (loop variable, records[i]) / what was appended to it
                for x in t[1]:
                    stack.append(("__in__", x))
            elif k == "__in__":
                x = t[1]
                if x[0] == "list" and not x[1]:
                    continue        # an empty display contributes no element
                if x[0] == "list":
                    # a list object reached through elem(): its display parts are the records
                    inner = [y for p_ in x[1] for y in p_]
                    if inner and all(y[0] == "list" for y in inner):
                        stack.extend(inner)
                    elif len(x[1]) > idx:
                        found.append(x)
                    else:
                        other = True
                else:
                    stack.append(x)
            elif k == "const" and t[1] is None:
                continue
            elif k == "rec":
                continue
            else:
                other = True
        return found if found and not other else []

    def _tuple_elements(self, terms, idx):
        """The tuple terms ('list', parts) a list value is made of, when *every* way it gets elements is a tuple display with
        more than idx positions (through added / elem / loop wrappers); [] otherwise."""
        found = []
        other = False
        stack = [(t, 0) for t in terms]
        seen = 0
        while stack and seen < 400:
            t, d = stack.pop()
            seen += 1
            k = t[0]
            if k == "list":
                if d == 0:
                    # the list object itself: its display elements are the elements
                    for part in t[1]:
                        for x in part:
                            stack.append((x, 1))
                elif len(t[1]) > idx:
                    found.append(t)
                else:
                    other = True
            elif k in ("added", "elem", "inloop") and len(t) > 1 and isinstance(t[1], frozenset):
                for x in t[1]:
                    stack.append((x, 1 if k == "added" else d))
            elif k == "const" and t[1] is None:
                continue
            elif k == "rec":
                continue
            elif k == "op" and t[1] == "Add" and d == 0:
                for part in t[2]:
                    for x in part:
                        stack.append((x, 0))
            else:
                other = True
        return found if found and not other else []

    def _generator_position(self, it, idx, f, env, depth):
        """for a, b in gen(x) with gen a package generator function all of whose yields are tuple displays: the idx-th target
        takes what the idx-th element of a yield can be."""
        if not isinstance(it, ast.Call) or idx is None:
            return None
        tg = [k[1] for k in self.res.kinds(it.func, f) if k[0] == "func"]
        if len(tg) != 1 or not tg[0].is_generator:
            return None
        G = tg[0]
        ys = [y for y in own_nodes(G.node) if isinstance(y, (ast.Yield, ast.YieldFrom))]
        # `yield from G(...)` of the generator itself hands on tuples of the same make (a recursive walk): it adds no new shape
        ys = [y for y in ys if not (isinstance(y, ast.YieldFrom) and isinstance(y.value, ast.Call) and any(k[0] == "func" and k[1] is G for k in self.res.kinds(y.value.func, G)))]
        if not ys or not all(isinstance(y, ast.Yield) and isinstance(y.value, ast.Tuple) and len(y.value.elts) > idx and not any(isinstance(e, ast.Starred) for e in y.value.elts) for y in ys):
            return None
        cenv = self._bind_env(G, it, f, env, depth, skip_self=G.cls is not None and not G.is_static)
        out = set()
        for y in ys:
            out |= self.term(y.value.elts[idx], G, cenv, depth + 1)
        return frozenset(out)

    def _consumed(self, arg_terms, env, depth, scalars_only=False):
        """An argument that is iterated by its consumer (b''.join(x), list(x), x.extend(y) ...): a package iterator instance
        contributes what its __next__ returns, not the arguments it was constructed with."""
        def iterated(t):
            # a package iterator, or a list / tuple built from one (list(hasher))
            return t[0] == "inst" or (t[0] == "ext" and t[1] in ("builtins.list", "builtins.tuple") and len(t[2]) == 1 and t[2][0] and all(a[0] == "elem" for a in t[2][0]))
        if not any(iterated(t) for t in arg_terms):
            return arg_terms
        insts = frozenset(t for t in arg_terms if iterated(t))
        rest = frozenset(t for t in arg_terms if not iterated(t))
        elems = self._iter_elems(insts, env, depth)
        keep = frozenset(t for t in elems if not (t[0] == "elem" and t[1] <= insts))
        if scalars_only and any(t[0] != "list" for t in keep):
            keep = frozenset(t for t in keep if t[0] != "list")
        not_iter = frozenset(x for t in elems if t[0] == "elem" for x in t[1] if x in insts)
        return rest | not_iter | (frozenset([("elem", keep)]) if keep else frozenset())

    def _iter_elems(self, it_terms, env, depth):
        """Terms of the elements obtained by iterating over a value."""
        out = set()
        rest = set()
        for t in it_terms:
            if t[0] == "inst":
                cls = self.prog.classes.get(t[1])
                nxt = self.prog.find_method(cls, "__next__") if cls else None
                if nxt is None and cls is not None:
                    it = self.prog.find_method(cls, "__iter__")
                    if it is not None and it.is_generator:
                        nxt = it
                if nxt is not None:
                    cenv = dict(env)
                    for pn, pv in t[2]:
                        cenv[pn] = pv
                    if nxt.is_generator:
                        for y in own_nodes(nxt.node):
                            if isinstance(y, ast.Yield) and y.value is not None:
                                out |= self.term(y.value, nxt, cenv, depth + 1)
                    else:
                        for r in self.res.return_exprs(nxt):
                            out |= self.term(r, nxt, cenv, depth + 1)
                    continue
            if t[0] == "ext" and t[1] in ("builtins.list", "builtins.tuple", "builtins.sorted", "builtins.reversed", "builtins.iter") and len(t[2]) == 1 \
                    and t[2][0] and all(a[0] == "elem" for a in t[2][0]):
                # a container built from an iterable holds that iterable's elements
                for a in t[2][0]:
                    out |= a[1]
                continue
            rest.add(t)
        if rest:
            out.add(("elem", frozenset(rest)))
        return frozenset(out)

    def _unpack(self, value, idx, n, f, env, depth):
        out = set()
        handled = False
        if isinstance(value, ast.Call) and idx is not None:
            for k in self.res.kinds(value.func, f):
                if k[0] == "func":
                    callee = k[1]
                    cenv = self._bind_env(callee, value, f, env, depth, skip_self=callee.cls is not None and not callee.is_static)
                    rets = self.res.return_exprs(callee)
                    tups = [self.as_tuple(r, callee) for r in rets]
                    if rets and all(t_ is not None and len(t_) == n for t_ in tups):
                        handled = True
                        for t_ in tups:
                            out |= self.term(t_[idx], callee, cenv, depth + 1)
        if not handled:
            tv = self.term(value, f, env, depth + 1)
            tuples = [t for t in tv if t[0] == "list" and len(t[1]) == n and idx is not None]
            if tuples:
                for t in tuples:
                    out |= t[1][idx]
            else:
                out.add(("sub", tv, fs(("const", idx))))
        return out

    def _sibling_loop_arities(self, f, it_expr):
        """Arities of tuple targets of other `for` loops in f over the same iterable expression."""
        try:
            txt = ast.unparse(it_expr)
        except Exception:
            return set()
        key = (f, "loop:" + txt)
        cache = self.__dict__.setdefault("_sua", {})
        if key not in cache:
            ar = set()
            for n in own_nodes(f.node):
                if isinstance(n, (ast.For, ast.comprehension)) and isinstance(n.target, (ast.Tuple, ast.List)) and ast.unparse(n.iter) == txt:
                    ar.add(len(n.target.elts))
            cache[key] = ar
        return cache[key]

    def _sibling_unpack_arities(self, f, src_name):
        key = (f, src_name)
        cache = self.__dict__.setdefault("_sua", {})
        if key not in cache:
            ar = set()
            for n in own_nodes(f.node):
                if isinstance(n, ast.Assign) and isinstance(n.value, ast.Name) and n.value.id == src_name:
                    for t in n.targets:
                        if isinstance(t, (ast.Tuple, ast.List)):
                            ar.add(len(t.elts))
            cache[key] = ar
        return cache[key]

    def _param(self, f, name, env, depth):
        k = (f.qual, name)
        if k in env:
            return env[k]
        if f in self.stop:
            return fs(("param", f.qual, name))
        if f.cls is not None and name == f.self_name:
            return fs(("self", f.cls.qual))
        sites = self.res.callsites_of(f)
        out = set()
        found = False
        for caller, call, bound in sites:
            arg = bound.get(name)
            if arg is None:
                continue
            found = True
            if caller is None and call is None:
                # decorator application: the decorated function object
                out.add(("global", "decorated", getattr(arg, "id", "?")))
                continue
            if caller is not None and self.caller_filter is not None and not self.caller_filter(caller):
                continue        # a calling context outside the operation under analysis
            out |= self.term(arg, caller, {}, depth + 1, caller.module if caller else f.module)
        d = f.defaults().get(name)
        if d is not None:
            out |= self.term(d, None, {}, depth + 1, f.module)
        if not found:
            out.add(("param", f.qual, name))
        return frozenset(out)

    # .................................................................. attributes
    def _attribute(self, e, fn, env, depth, mod):
        # self.attr (receiver = package instance)
        kinds = self.res.kinds(e.value, fn, mod)
        insts = [k[1] for k in kinds if k[0] == "inst"]
        classes = [k[1] for k in kinds if k[0] == "class"]
        out = set()
        if insts or classes:
            is_self = isinstance(e.value, ast.Name) and fn is not None and e.value.id == fn.self_name
            seen_roots = set()
            for c in insts + classes:
                root = min((x.qual for x in self.prog.family(c)))
                if (root, e.attr) in seen_roots:
                    continue
                seen_roots.add((root, e.attr))
                # methods: bound method value
                m = self.prog.find_method(c, e.attr)
                stores = self.attr_stores(c, e.attr)
                if m is None:
                    # record.field on a NamedTuple of the package: the field of the tuple(s) the record can be
                    ntf = self._nt_fields_of_class(c)
                    if ntf and e.attr in ntf:
                        if is_self and fn is not None and (fn.qual, fn.self_name) in env:
                            base_t = env[(fn.qual, fn.self_name)]
                        elif is_self and fn is not None:
                            # no calling context: the records the method is called on anywhere in the package
                            acc = set()
                            for caller_, call_, _b in self.res.callsites_of(fn):
                                if caller_ is not None and isinstance(call_.func, ast.Attribute):
                                    acc |= self.term(call_.func.value, caller_, {}, depth + 1, caller_.module)
                            base_t = frozenset(acc)
                        else:
                            base_t = self.term(e.value, fn, env, depth + 1, mod)
                        recs = self._records(base_t, ntf.index(e.attr))
                        if recs:
                            for r_ in recs:
                                out |= r_[1][ntf.index(e.attr)]
                            continue
                if m is not None and not stores:
                    if any(ast.unparse(d).split(".")[-1] in ("property", "cached_property") for d in m.decorators):
                        # a property: the attribute reads as what the getter returns, for this receiver
                        penv = dict(env) if is_self else {}
                        if not is_self:
                            for t in self.term(e.value, fn, env, depth + 1, mod):
                                if t[0] == "inst":
                                    for pn, pv in t[2]:
                                        penv[pn] = pv
                        for r in self.res.return_exprs(m):
                            out |= self.term(r, m, penv, depth + 1)
                        continue
                    out.add(("global", m.module.name, m.qualname))
                    continue
                if not stores:
                    out.add(("selfattr", c.qual, e.attr))
                    continue
                benv = env
                if not is_self:
                    # receiver created by a constructor call: bind constructor parameters
                    benv = dict(env)
                    for t in self.term(e.value, fn, env, depth + 1, mod):
                        if t[0] == "inst":
                            for pn, pv in t[2]:
                                benv[pn] = pv
                chosen = self._local_reaching(stores, fn, e) if is_self else stores
                for (val, m2, site, idx) in chosen:
                    if val is None:
                        continue
                    if m2 is None:
                        out |= self.term(val, None, {}, depth + 1, c.module)
                        continue
                    if idx == "iter":
                        out |= self._iter_elems(self.term(val, m2, benv, depth + 1), benv, depth)
                    elif isinstance(idx, tuple) and idx[0] == "mut":
                        out.add(self.mut_term(val, site, idx[1], idx[2], m2, benv, depth))
                    elif idx == "aug":
                        out.add(("op", "aug", (self.term(val, m2, benv, depth + 1),)))
                    elif isinstance(idx, int):
                        out |= self._unpack(val, idx, 0, m2, benv, depth) if not isinstance(val, ast.Call) else \
                            self._unpack_call(val, idx, m2, benv, depth)
                    else:
                        out |= self.term(val, m2, benv, depth + 1)
            others = [k for k in kinds if k[0] not in ("inst", "class")]
            if not others:
                return frozenset(out)
        # module attribute
        for k in kinds:
            if k[0] == "mod":
                if k[1] in self.prog.modules:
                    m = self.prog.modules[k[1]]
                    if e.attr in m.assigns:
                        for v in m.assigns[e.attr]:
                            out |= self.term(v, None, {}, depth + 1, m)
                    else:
                        out.add(("global", m.name, e.attr))
                else:
                    out.add(("global", k[1], e.attr))
            elif k[0] == "ext":
                out.add(("global", k[1], e.attr))
            elif k[0] not in ("inst", "class"):
                base = self.term(e.value, fn, env, depth + 1, mod)
                insts = self._insts_in(base)
                if insts:
                    for it in insts:
                        out |= self._inst_attr(it, e.attr, env, depth)
                else:
                    rec = self._field_of_unknown_record(base, e.attr)
                    if rec is not None:
                        out |= rec
                    else:
                        out.add(("attr", base, e.attr))
        if out:
            return frozenset(out)
        base = self.term(e.value, fn, env, depth + 1, mod)
        rec = self._field_of_unknown_record(base, e.attr)
        if rec is not None:
            return rec
        insts = self._insts_in(base)
        if insts:
            for it in insts:
                out |= self._inst_attr(it, e.attr, env, depth)
            return frozenset(out)
        return fs(("attr", base, e.attr))

    def _insts_in(self, terms, depth=0):
        """('inst', ...) terms reachable through element / subscript / list wrappers."""
        out = []
        if depth > 6:
            return out
        for t in terms:
            if t[0] == "inst":
                out.append(t)
            elif t[0] in ("elem", "added", "inloop"):
                out += self._insts_in(t[1], depth + 1)
            elif t[0] == "sub":
                out += self._insts_in(t[1], depth + 1)
            elif t[0] == "list":
                for p in t[1]:
                    out += self._insts_in(p, depth + 1)
            elif t[0] == "op" and t[1] in ("aug", "Add"):
                for p in t[2]:
                    out += self._insts_in(p, depth + 1)
        return out

    def _inst_attr(self, inst_term, attr, env, depth):
        cls = self.prog.classes.get(inst_term[1])
        if cls is None:
            return {("attr", fs(inst_term), attr)}
        stores = self.attr_stores(cls, attr)
        m = self.prog.find_method(cls, attr)
        if not stores:
            return {("global", m.module.name, m.qualname)} if m else {("selfattr", cls.qual, attr)}
        benv = dict(env)
        for pn, pv in inst_term[2]:
            benv[pn] = pv
        out = set()
        for (val, m2, site, idx) in stores:
            if val is None:
                continue
            if m2 is None:
                out |= self.term(val, None, {}, depth + 1, cls.module)
            elif idx == "iter":
                out |= self._iter_elems(self.term(val, m2, benv, depth + 1), benv, depth)
            elif isinstance(idx, tuple) and idx[0] == "mut":
                out.add(self.mut_term(val, site, idx[1], idx[2], m2, benv, depth))
            elif idx == "aug":
                out.add(("op", "aug", (self.term(val, m2, benv, depth + 1),)))
            elif isinstance(idx, int):
                out |= self._unpack_call(val, idx, m2, benv, depth) if isinstance(val, ast.Call) else self._unpack(val, idx, 0, m2, benv, depth)
            else:
                out |= self.term(val, m2, benv, depth + 1)
        return out

    def _unpack_call(self, value, idx, f, env, depth):
        out = set()
        handled = False
        for k in self.res.kinds(value.func, f):
            if k[0] == "func":
                callee = k[1]
                cenv = self._bind_env(callee, value, f, env, depth, skip_self=callee.cls is not None and not callee.is_static)
                rets = self.res.return_exprs(callee)
                if rets and all(isinstance(r, ast.Tuple) and idx < len(r.elts) for r in rets):
                    handled = True
                    for r in rets:
                        out |= self.term(r.elts[idx], callee, cenv, depth + 1)
        if not handled:
            out.add(("sub", self.term(value, f, env, depth + 1), fs(("const", idx))))
        return out

    def _local_reaching(self, stores, fn, use):
        """Prefer the stores of the current function that reach the read (see DESIGN 3.6)."""
        mine = [s for s in stores if s[1] is fn and not isinstance(s[3], tuple)]
        if not mine:
            return stores
        g = self.cfg(fn)
        un = self.cfg_node(fn, use)
        if un is None:
            return stores
        before = []
        for s in mine:
            sn = self.cfg_node(fn, s[2])
            if sn is None:
                return stores
            if sn is un:
                continue
            if un in g.reachable(sn) and (s[2].lineno, s[2].col_offset) < (use.lineno, use.col_offset):
                before.append((s, sn))
        doms = [(s, sn) for s, sn in before if g.dominates(sn, un)]
        if not doms:
            return stores
        last = max(doms, key=lambda p: (p[0][2].lineno, p[0][2].col_offset))
        lastpos = (last[0][2].lineno, last[0][2].col_offset)
        chosen = [s for s, sn in before if (s[2].lineno, s[2].col_offset) >= lastpos]
        # container mutations of the attribute anywhere still contribute
        chosen += [s for s in stores if isinstance(s[3], tuple)]
        return chosen

    # .................................................................. calls
    def _bind_env(self, callee, call, fn, env, depth, skip_self):
        bound = self.res.bind_args(callee, call, skip_self)
        # the callee only sees its own parameters and the constructor bindings of its own class family
        keep = {callee.qual}
        if callee.cls is not None:
            for c in set(self.prog.mro(callee.cls)) | set(self.prog.subclasses(callee.cls)):
                init = c.methods.get("__init__")
                if init is not None:
                    keep.add(init.qual)
        cenv = {k: v for k, v in env.items() if k[0] in keep}
        for p, arg in bound.items():
            if p in ("*", "**") or p.startswith("*"):
                continue
            if isinstance(arg, list):
                continue
            cenv[(callee.qual, p)] = self.term(arg, fn, env, depth + 1)
        if "**" in bound:
            kw = self.term(bound["**"], fn, env, depth + 1)
            for p in callee.all_params():
                if (callee.qual, p) not in cenv and p != callee.self_name:
                    picked = set()
                    for t in self._dicts_in(kw):
                        for kt, vt in t[1]:
                            if any(k == ("const", p) for k in kt):
                                picked |= vt
                    cenv[(callee.qual, p)] = frozenset(picked) if picked else fs(("sub", kw, fs(("const", p))))
        return cenv

    def _dicts_in(self, terms, depth=0):
        out = []
        if depth > 6:
            return out
        for t in terms:
            if t[0] == "dict":
                out.append(t)
            elif t[0] in ("elem", "sub", "added", "inloop"):
                out += self._dicts_in(t[1], depth + 1)
            elif t[0] == "list":
                for p in t[1]:
                    out += self._dicts_in(p, depth + 1)
        return out

    def namedtuple_fields(self, func_expr, fn, mod):
        """Field names if func_expr names a namedtuple class of the package (X = namedtuple('X', ...) at module level, or
        class X(NamedTuple) with annotated fields); None otherwise."""
        if not isinstance(func_expr, ast.Name):
            return None
        m = mod or (fn.module if fn else None)
        if m is None:
            return None
        cache = self.__dict__.setdefault("_nt", {})
        key = (m.name, func_expr.id)
        if key in cache:
            return cache[key]
        fields = None
        vals = m.assigns.get(func_expr.id, [])
        if len(vals) == 1 and isinstance(vals[0], ast.Call) and ast.unparse(vals[0].func).split(".")[-1] == "namedtuple" and len(vals[0].args) >= 2:
            spec = vals[0].args[1]
            if isinstance(spec, ast.Constant) and isinstance(spec.value, str):
                fields = spec.value.replace(",", " ").split()
            elif isinstance(spec, (ast.List, ast.Tuple)) and all(isinstance(x, ast.Constant) and isinstance(x.value, str) for x in spec.elts):
                fields = [x.value for x in spec.elts]
        if fields is None:
            for c in self.prog.classes.values():
                if c.module is m and c.name == func_expr.id and any(ast.unparse(b).split(".")[-1] == "NamedTuple" for b in c.node.bases):
                    fields = [st.target.id for st in c.node.body if isinstance(st, ast.AnnAssign) and isinstance(st.target, ast.Name)]
                    self.__dict__.setdefault("_nt_defaults", {})[m.name + ":" + c.name] = {st.target.id: st.value for st in c.node.body if isinstance(st, ast.AnnAssign)
                                                                                           and isinstance(st.target, ast.Name) and st.value is not None}
                    self.__dict__.setdefault("_nt_class_fields", {})[c.qual] = fields
        cache[key] = fields
        return fields

    def as_tuple(self, expr, fn, mod=None):
        """Element expressions of a tuple-valued expression: a tuple display, or a namedtuple constructed in place."""
        if isinstance(expr, ast.Tuple):
            if not any(isinstance(x, ast.Starred) for x in expr.elts):
                return list(expr.elts)
            # (a, *rest) with `rest` a local bound once to a list / tuple display of known length: a, rest[0], rest[1] ...
            hit = self._synth.get(id(expr))
            if hit is not None:
                return hit[1]
            out = []
            for x in expr.elts:
                if not isinstance(x, ast.Starred):
                    out.append(x)
                    continue
                v = x.value
                bl = self.res.bindings(fn).get(v.id, []) if isinstance(v, ast.Name) and fn is not None else []
                vals = [p_ for w_, p_ in bl if w_ == "value"]
                if len(vals) != 1 or len(bl) != 1 or not isinstance(vals[0], (ast.List, ast.Tuple)) or any(isinstance(y, ast.Starred) for y in vals[0].elts):
                    return None
                for i in range(len(vals[0].elts)):
                    sub = ast.Subscript(value=ast.Name(id=v.id, ctx=ast.Load()), slice=ast.Constant(value=i), ctx=ast.Load())
                    ast.copy_location(sub, x)
                    ast.fix_missing_locations(sub)
                    out.append(sub)
            self._synth[id(expr)] = (expr, out)
            return out
        if isinstance(expr, ast.Call):
            fields = self.namedtuple_fields(expr.func, fn, mod)
            if fields and not any(isinstance(a, ast.Starred) for a in expr.args) and all(kw.arg for kw in expr.keywords):
                elts = list(expr.args) + [None] * (len(fields) - len(expr.args))
                for kw in expr.keywords:
                    if kw.arg in fields:
                        elts[fields.index(kw.arg)] = kw.value
                # class X(NamedTuple): field: T = default
                dflt = self.__dict__.get("_nt_defaults", {}).get((mod or (fn.module if fn else None)).name + ":" + expr.func.id, {}) if isinstance(expr.func, ast.Name) else {}
                for i_, f_ in enumerate(fields):
                    if i_ < len(elts) and elts[i_] is None and f_ in dflt:
                        elts[i_] = dflt[f_]
                if len(elts) == len(fields) and all(x is not None for x in elts):
                    return elts
        return None

    def _call(self, e, fn, env, depth, mod):
        nt = self.as_tuple(e, fn, mod)
        if nt is not None and not isinstance(e, ast.Tuple):
            return fs(("list", tuple(self.term(x, fn, env, depth + 1, mod) for x in nt)))
        targets = self.res.call_targets(e, fn, mod)
        out = set()
        args = self._many([a for a in e.args], fn, env, depth + 1, mod)
        kwargs = tuple((kw.arg or "**", self.term(kw.value, fn, env, depth + 1, mod)) for kw in e.keywords)
        for t in targets:
            if t[0] == "pkg" and t[1] in self.opaque:
                callee = t[1]
                skip_self = callee.cls is not None and not callee.is_static
                bound = self.res.bind_args(callee, e, skip_self)
                out.add(("pkgcall", callee.qual, tuple(sorted(
                    ((p, self.term(a, fn, env, depth + 1, mod)) for p, a in bound.items() if isinstance(a, ast.AST) and not p.startswith("*")),
                    key=lambda kv: kv[0]))))
                continue
            if t[0] == "pkg":
                callee = t[1]
                if callee.name == "__init__" and callee.cls is not None and not (
                        isinstance(e.func, ast.Attribute) and e.func.attr == "__init__"):
                    # constructor call
                    cenv = self._bind_env(callee, e, fn, env, depth, skip_self=True)
                    cls = None
                    for k in self.res.kinds(e.func, fn, mod):
                        if k[0] == "class":
                            cls = k[1]
                    bound = tuple(sorted(((k, v) for k, v in cenv.items() if k[0] == callee.qual), key=lambda kv: kv[0]))
                    out.add(("inst", (cls or callee.cls).qual, bound))
                    continue
                skip_self = callee.cls is not None and not callee.is_static
                if self._fstack.count(callee) >= 1:
                    self.rec_hits += 1
                    out.add(("rec", callee.qual))
                    continue
                cenv = self._bind_env(callee, e, fn, env, depth, skip_self)
                # receiver built by a constructor: bind its constructor parameters too
                if isinstance(e.func, ast.Attribute) and skip_self:
                    recv_t = self.term(e.func.value, fn, env, depth + 1, mod)
                    for rt in recv_t:
                        if rt[0] == "inst":
                            for pn, pv in rt[2]:
                                cenv.setdefault(pn, pv)
                    # a method of a NamedTuple record: `self` is the record the method is called on
                    if callee.cls is not None and callee.self_name and self._nt_fields_of_class(callee.cls):
                        cenv[(callee.qual, callee.self_name)] = recv_t
                self._fstack.append(callee)
                try:
                    if callee.is_generator:
                        ys = [n for n in own_nodes(callee.node) if isinstance(n, (ast.Yield, ast.YieldFrom)) and n.value is not None]
                        got = set()
                        for y in ys:
                            tt = self.term(y.value, callee, cenv, depth + 1)
                            one = ("elem", tt)
                            # what a generator hands out comes in the order of the loops the yield sits in: keep their
                            # iterables as order carriers (a walk over os.scandir() yields in enumeration order)
                            par = self.prog.parent.get(y)
                            while par is not None and par is not callee.node:
                                if isinstance(par, ast.For):
                                    one = ("inloop", fs(one), self.term(par.iter, callee, cenv, depth + 1))
                                par = self.prog.parent.get(par)
                            got.add(one)
                        out |= got or {("const", None)}
                    else:
                        rets = self.res.return_exprs(callee)
                        if not rets:
                            out.add(("const", None))
                        for r in rets:
                            out |= self.term(r, callee, cenv, depth + 1)
                finally:
                    self._fstack.pop()
            elif t[0] == "new":
                out.add(("inst", t[1].qual, ()))
            elif t[0] == "ext":
                if t[1] in CONSUMERS and args:
                    args = tuple(self._consumed(a, env, depth) for a in args)
                out.add(("ext", t[1], args, kwargs))
            elif t[0] in ("bmeth", "umeth"):
                name = t[2] if t[0] == "bmeth" else t[1]
                recv = self.term(e.func.value, fn, env, depth + 1, mod) if isinstance(e.func, ast.Attribute) else fs()
                if name in ("join", "extend", "update", "writelines") and args:
                    # sep.join(it): every element is a string / bytes object - an iterator that sometimes yields tuples
                    # (another mode of the same class) cannot be feeding this call, it would raise TypeError
                    args = tuple(self._consumed(a, env, depth, scalars_only=(name == "join")) for a in args)
                out.add(("meth", name, recv, args))
            elif t[0] == "lambda":
                out |= self.term(t[1].body, fn, env, depth + 1, mod)
            else:
                out.add(("unknown", "call:" + ast.unparse(e.func)[:40]))
        return frozenset(out) or fs(("unknown", "call"))


# ---------------------------------------------------------------------- term utilities
def walk_terms(terms, seen=None):
    """Yield every term in a frozenset of terms, recursively."""
    seen = seen if seen is not None else set()
    stack = list(terms)
    while stack:
        t = stack.pop()
        if not isinstance(t, tuple):
            continue
        if id(t) in seen:
            continue
        seen.add(id(t))
        yield t
        for part in t[1:]:
            stack.extend(_subsets(part))


def walk_values(terms):
    """Like walk_terms, but the iterable of a loop annotation (an order carrier, not a source of the value) is not entered."""
    seen = set()
    stack = list(terms)
    while stack:
        t = stack.pop()
        if not isinstance(t, tuple) or id(t) in seen:
            continue
        seen.add(id(t))
        yield t
        for part in (t[1:2] if t[0] == "inloop" else t[1:]):
            stack.extend(_subsets(part))


def _subsets(part):
    if isinstance(part, frozenset):
        return list(part)
    if isinstance(part, tuple):
        out = []
        for p in part:
            if isinstance(p, (frozenset, tuple)):
                out.extend(_subsets(p))
        return out
    return []


def travels_in_container(terms, interesting):
    """True if a term selects an element (loop element, variable index, unpacking) of a container literal that holds more
    than one `interesting` value side by side: which of them arrives is then not separated by the term language."""
    for t in walk_terms(terms):
        if t[0] in ("elem", "sub", "inloop") and len(t) > 1 and isinstance(t[1], frozenset):
            if t[0] == "sub" and len(t) > 2 and isinstance(t[2], frozenset) and t[2] and all(i[0] == "const" and not isinstance(i[1], str) for i in t[2]):
                pass        # constant index: still merged by this representation
            for b in t[1]:
                if b[0] in ("list", "dict") and isinstance(b[1], tuple):
                    parts = [x if isinstance(x, frozenset) else (x[1] if isinstance(x, tuple) and len(x) == 2 else frozenset()) for x in b[1]]
                    holders = [pt for pt in parts if isinstance(pt, frozenset) and any(interesting(y) for y in walk_terms(pt))]
                    if len(holders) > 1:
                        return True
    return False


def merged_positions(terms, interesting):
    """True if `interesting` origins are reached only by selecting *some* element (loop element, unpacking, variable index) of
    a tuple / list display of which other positions are not interesting: the term language merged positions that the
    program keeps apart (records passed around in a list, a namedtuple unpacked in a loop)."""
    for t in walk_terms(terms):
        if t[0] in ("elem", "sub", "inloop", "added") and len(t) > 1 and isinstance(t[1], frozenset):
            stack = list(t[1])
            seen = 0
            while stack and seen < 200:
                b = stack.pop()
                seen += 1
                if b[0] == "list" and isinstance(b[1], tuple) and len(b[1]) > 1:
                    flags = [any(interesting(y) for y in walk_terms(pt)) for pt in b[1] if isinstance(pt, frozenset)]
                    if any(flags) and not all(flags):
                        return True
                elif b[0] in ("elem", "added", "inloop", "sub") and len(b) > 1 and isinstance(b[1], frozenset):
                    stack.extend(b[1])
    return False


def leaves(terms):
    """Leaf origins (param / const / global / selfattr / unknown / ext without args ...)."""
    out = set()
    for t in walk_terms(terms):
        if t[0] in ("param", "const", "global", "selfattr", "unknown", "self", "rec", "lambda"):
            out.add(t)
        elif t[0] == "ext":
            out.add(("ext", t[1]))
    return out


def show(terms, depth=0, maxdepth=6):
    """Readable rendering of a term set."""
    if depth > maxdepth:
        return "..."
    parts = []
    for t in sorted(terms, key=repr):
        parts.append(show1(t, depth, maxdepth))
    return "{" + " | ".join(parts) + "}" if len(parts) != 1 else parts[0]


def show1(t, depth=0, maxdepth=6):
    k = t[0]
    S = lambda x: show(x, depth + 1, maxdepth)  # noqa: E731
    if k == "const":
        return repr(t[1])
    if k == "param":
        return "param:%s.%s" % (t[1].split(":")[-1], t[2])
    if k == "ext":
        a = ", ".join(S(x) for x in t[2])
        kw = ", ".join("%s=%s" % (n, S(v)) for n, v in t[3])
        return "%s(%s)" % (t[1], ", ".join(x for x in (a, kw) if x))
    if k == "meth":
        return "%s.%s(%s)" % (S(t[2]), t[1], ", ".join(S(x) for x in t[3]))
    if k == "op":
        return "%s(%s)" % (t[1], ", ".join(S(x) for x in t[2]))
    if k == "sub":
        return "%s[%s]" % (S(t[1]), S(t[2]))
    if k == "attr":
        return "%s.%s" % (S(t[1]), t[2])
    if k == "elem":
        return "elem(%s)" % S(t[1])
    if k == "kelem":
        return "[%s]=%s" % (S(t[1]), S(t[2]))
    if k == "added":
        return "+(%s)" % S(t[1])
    if k == "inloop":
        return "%s@loop(%s)" % (S(t[1]), S(t[2]))
    if k == "list":
        return "[%s]" % ", ".join(S(x) for x in t[1])
    if k == "dict":
        return "{%s}" % ", ".join("%s: %s" % (S(a), S(b)) for a, b in t[1])
    if k == "fstr":
        return "f'%s'" % "+".join(S(x) for x in t[1])
    if k == "inst":
        return "%s(...)" % t[1].split(":")[-1]
    if k == "pkgcall":
        return "%s(%s)" % (t[1].split(":")[-1], ", ".join("%s=%s" % (n, S(v)) for n, v in t[2]))
    if k == "selfattr":
        return "attr:%s.%s" % (t[1].split(":")[-1], t[2])
    if k == "global":
        return "%s.%s" % (t[1], t[2])
    return repr(t)
