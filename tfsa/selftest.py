"""Self-test of a rule module on scratch copies of the *current* tree.

Each rule module lists MUTANTS: dictionaries
  name     unique name
  file     path relative to the repository root
  edits    [(old, new)] exact text replacements (each must apply exactly `count` times, default 1)
           or a callable src -> src
  expect   'violated' (the named rule prefix must report VIOLATED)  or 'clean' (benign: exit status 0)
  rule     rule id prefix expected to fire (for 'violated')
  canary   True -> a miss makes the run exit 2 (the rule is vacuous on this tree)
  quick    True -> also run in the quick tier (positive control)
A mutant whose anchors no longer exist in the tree is reported as 'inapplicable', never as a failure.
Scratch copies live under a fresh temporary directory and are removed afterwards.
"""
import importlib
import os
import random
import shutil
import sys
import tempfile
import time
from concurrent.futures import ProcessPoolExecutor


def _copy_tree(repo, dst):
    os.makedirs(dst, exist_ok=True)
    shutil.copytree(os.path.join(repo, "torrentfile"), os.path.join(dst, "torrentfile"),
                    ignore=shutil.ignore_patterns("__pycache__", "*.pyc"))
    if os.path.isdir(os.path.join(repo, "bin")):
        shutil.copytree(os.path.join(repo, "bin"), os.path.join(dst, "bin"))


def apply_edits(src, edits):
    if callable(edits):
        return edits(src)
    for ed in edits:
        old, new = ed[0], ed[1]
        count = ed[2] if len(ed) > 2 else 1
        if src.count(old) != count:
            return None
        src = src.replace(old, new)
    return src


def _seeded_mutants(prop):
    """Independently written property-breaking changes kept under /verif/seeded: regression set for the checks that report them."""
    import json
    here = os.path.dirname(os.path.dirname(os.path.abspath(__file__)))
    out = []
    root = os.path.join(here, "seeded")
    if not os.path.isdir(root):
        return out
    for d in sorted(os.listdir(root)):
        mp = os.path.join(root, d, "meta.json")
        pp = os.path.join(root, d, "patch.diff")
        if not (os.path.isfile(mp) and os.path.isfile(pp)):
            continue
        try:
            meta = json.load(open(mp))
        except ValueError:
            continue
        if meta.get("kind") == "benign-refactoring":
            # a behaviour-preserving refactoring written by an independent agent: no check may report a violation on it;
            # where the check was decided when the case was collected it must stay decided
            if prop in meta.get("clean_for", []):
                out.append({"name": "benign-" + d, "patch": pp, "expect": "clean", "canary": False, "what": "behaviour-preserving refactoring %s: %s" % (d, meta.get("what", "")[:80])})
            elif prop in meta.get("undecided_for", {}):
                out.append({"name": "benign-" + d, "patch": pp, "expect": "no-alarm", "canary": False, "what": "behaviour-preserving refactoring %s (undecided accepted): %s" % (d, meta.get("what", "")[:80])})
            # the same refactoring with one property-breaking edit made on top of it (written by the author of /verif): the
            # rule that learnt to read the refactored shape must still report the break in it
            tb = os.path.join(root, d, "then_break.json")
            if os.path.isfile(tb):
                for b in json.load(open(tb)):
                    if prop in b["violates"]:
                        out.append({"name": "refactored-%s-%s" % (d, b["name"]), "patch": pp, "then": [(b["file"], [tuple(e) for e in b["edits"]])], "expect": "violated", "rule": prop,
                                    "canary": False, "what": "refactoring %s followed by: %s" % (d, b["what"])})
            continue
        if prop in meta.get("checks_reporting_it", []):
            out.append({"name": "seeded-" + d, "patch": pp, "expect": "violated", "rule": prop, "canary": False,
                        "what": "independently seeded change %s (target property %s)" % (d, meta.get("property"))})
        elif prop == meta.get("property") and prop in meta.get("checks_undecided_on_it", []):
            # the target check cannot decide this change (exit 2): it must at least never call the changed tree clean
            out.append({"name": "seeded-" + d, "patch": pp, "expect": "not-clean", "rule": prop, "canary": False,
                        "what": "independently seeded change %s: answered undecided, must not pass silently" % d})
        for b in meta.get("benign_parts", []):
            bp = os.path.join(root, d, b["file"])
            if prop in b.get("clean_for", []) and os.path.isfile(bp):
                out.append({"name": "benign-%s-%s" % (d, b["file"][len("benign_"):-len(".diff")]), "patch": bp, "expect": "clean", "canary": False,
                            "what": "behaviour-preserving part of seeded change %s" % d})
    return out


def _global_benign():
    from . import benign
    return [{"name": n, "global": n, "expect": "clean", "what": "whole-package behaviour-preserving transform"} for n in sorted(benign.TRANSFORMS)]


def _all_mutants(mod, prop):
    return list(getattr(mod, "MUTANTS", [])) + _seeded_mutants(prop) + _global_benign()


def _run_one(args):
    prop, repo, mutant_index, workdir = args
    here = os.path.dirname(os.path.dirname(os.path.abspath(__file__)))
    if here not in sys.path:
        sys.path.insert(0, here)
    sys.setrecursionlimit(10000)
    mod = importlib.import_module("rules." + prop.lower())
    m = _all_mutants(mod, prop)[mutant_index]
    dst = tempfile.mkdtemp(prefix="m%03d_" % mutant_index, dir=workdir)
    try:
        _copy_tree(repo, dst)
        if "global" in m:
            from tfsa import benign
            benign.apply(m["global"], dst)
            m = dict(m, file=[], edits=[])
        if "patch" in m:
            import subprocess
            r = subprocess.run(["patch", "-p1", "-s", "--no-backup-if-mismatch", "-i", m["patch"]], cwd=dst, capture_output=True, text=True)
            if r.returncode != 0:
                return {"name": m["name"], "outcome": "inapplicable", "why": "patch does not apply to this tree"}
            then = m.get("then", [])
            m = dict(m, file=[f for f, _ in then], edits=[e for _, e in then])
        files = m["file"] if isinstance(m["file"], (list, tuple)) else [m["file"]]
        editsets = m["edits"] if isinstance(m["file"], (list, tuple)) else [m["edits"]]
        for f, eds in zip(files, editsets):
            path = os.path.join(dst, f)
            if not os.path.exists(path):
                return {"name": m["name"], "outcome": "inapplicable", "why": "file missing"}
            with open(path, encoding="utf-8") as fh:
                src = fh.read()
            new = apply_edits(src, eds)
            if new is None or new == src:
                return {"name": m["name"], "outcome": "inapplicable", "why": "anchor text not found in " + f}
            try:
                compile(new, path, "exec")
            except SyntaxError as exc:
                return {"name": m["name"], "outcome": "broken-mutant", "why": "does not compile: %s" % exc}
            with open(path, "w", encoding="utf-8") as fh:
                fh.write(new)
        from check import analyse
        from tfsa.report import load_known, match_known
        import time as _time
        _t0 = _time.time()
        ctx, _ = analyse(prop, dst)
        _wall = round(_time.time() - _t0, 1)
        known = load_known()
        viol = [o for o in ctx.obs if o.status == "VIOLATED" and not match_known(o, known)]
        und = [o for o in ctx.obs if o.status == "UNDECIDED"]
        floors = [f for f in ctx.floors if f[2] < f[1]]
        rules = sorted({o.rule for o in viol})
        res = {"name": m["name"], "wall_s": _wall, "violated_rules": rules, "undecided": len(und) + len(floors),
               "details": [("%s @%s: %s" % (o.rule, o.site, o.detail))[:240] for o in (viol + und)[:4]]}
        if m["expect"] in ("violated", "not-clean"):
            want = m.get("rule", prop)
            if any(r.startswith(want) for r in rules):
                res["outcome"] = "killed"
            elif rules:
                res["outcome"] = "killed-by-other-rule"
            elif und or floors:
                res["outcome"] = "undecided"
            else:
                res["outcome"] = "survived"
        else:
            if rules:
                res["outcome"] = "false-alarm"
            elif und or floors:
                res["outcome"] = "benign-undecided"
            else:
                res["outcome"] = "clean"
        return res
    finally:
        shutil.rmtree(dst, ignore_errors=True)


def run(prop, mod, repo, tier, seed, jobs):
    mutants = _all_mutants(mod, prop)
    idx = [i for i, m in enumerate(mutants) if tier == "thorough" or m.get("quick")]
    rnd = random.Random(seed)
    rnd.shuffle(idx)
    t0 = time.time()
    workdir = tempfile.mkdtemp(prefix="tfsa_selftest_")
    results = []
    try:
        if idx:
            with ProcessPoolExecutor(max_workers=max(1, min(jobs, len(idx)))) as ex:
                for r in ex.map(_run_one, [(prop, repo, i, workdir) for i in idx]):
                    results.append(r)
    finally:
        shutil.rmtree(workdir, ignore_errors=True)
    byname = {m["name"]: m for m in mutants}
    failures = []
    counts = {}
    for r in results:
        counts[r["outcome"]] = counts.get(r["outcome"], 0) + 1
        m = byname[r["name"]]
        if m["expect"] == "violated":
            if r["outcome"] in ("survived", "undecided") and (m.get("canary") or "patch" in m):
                failures.append("canary mutant '%s' not reported (%s): rule %s is vacuous on this tree" % (
                    r["name"], r["outcome"], m.get("rule", prop)))
            if r["outcome"] == "broken-mutant":
                failures.append("mutant '%s' %s" % (r["name"], r.get("why")))
        elif m["expect"] == "not-clean":
            if r["outcome"] == "survived":
                failures.append("seeded change '%s' passes silently (it was answered undecided when collected): the check lost what made it hesitate" % r["name"])
        elif m["expect"] == "no-alarm":
            if r["outcome"] == "false-alarm":
                failures.append("behaviour-preserving refactoring '%s' is reported as a violation: %s" % (r["name"], "; ".join(r.get("details", []))))
        else:
            if r["outcome"] in ("false-alarm", "benign-undecided"):
                failures.append("benign transform '%s' changed the verdict (%s): %s" % (
                    r["name"], r["outcome"], "; ".join(r.get("details", []))))
    applicable_canaries = [r for r in results if byname[r["name"]].get("canary") and r["outcome"] != "inapplicable"]
    summary = {"mutants_run": len(results), "outcomes": counts, "wall_s": round(time.time() - t0, 2),
               "canaries_applicable": len(applicable_canaries), "tier": tier}
    matrix = [{"mutant": r["name"], "expect": byname[r["name"]]["expect"], "outcome": r["outcome"],
               "rules": r.get("violated_rules", []), "why": r.get("why", ""),
               "what": byname[r["name"]].get("what", "")} for r in sorted(results, key=lambda r: r["name"])]
    return {"summary": summary, "matrix": matrix, "failures": failures}
